package transfer

import (
	"bytes"
	"flag"
	"fmt"
	"math/rand"
	"os"
	"path/filepath"
	"sort"
	"sync"
	"time"

	"verifharness/sim"
)

// `vh-transfer up`: every script line is one behaviour of MC_Transfer (Gen_Transfer_C09*):
//   {n, r, steps:[{op:"request"|"resume"|"plant"|"publish"|"download"}, {op:"deliver"|"cut", at:{seg,i}} ...]}
// n, r and the positions `at` are abstract (header = 3 abstract bytes, data fork n <= 4, ...); the driver maps them
// (seeded, monotone) to real sizes and real stream offsets, enacts the steps on the real server and logs after every
// step what the upload directory holds.

type upScript struct {
	run   int
	N, R  int   // real data fork / resource fork length (R = -1: none, fork count 2)
	phi   []int // abstract data index 0..n -> real index 0..N (strictly increasing)
	psi   []int // abstract resource index 0..r -> real index
	name  nameClass
	pf    bool // Config.PreserveResourceForks
	data  []byte
	rsrc  []byte
	hdr   []byte // FILP header + INFO fork header + info fork (the DATA fork header is appended per connection)
	dir   string
	final string
	segm  bool // deliver the stream in random segments
	hseg  int  // part of the header region a cut "inside the header" falls into (-1: drawn)
}

const foreignMarker = "somebody else's file\n"

func monotone(r *rand.Rand, n, N int) []int {
	phi := make([]int, n+1)
	phi[n] = N
	if n <= 1 {
		return phi
	}
	cands := map[int]bool{}
	for _, c := range []int{1, 2, N - 1, N - 2, N / 2, 4096, 32767, 32768, 32769, 65536, 65537} {
		if c >= 1 && c <= N-1 {
			cands[c] = true
		}
	}
	for len(cands) < n-1+3 && len(cands) < N-1 {
		cands[1+r.Intn(N-1)] = true
	}
	var list []int
	for c := range cands {
		list = append(list, c)
	}
	sort.Ints(list)
	r.Shuffle(len(list), func(i, j int) { list[i], list[j] = list[j], list[i] })
	chosen := append([]int(nil), list[:n-1]...)
	sort.Ints(chosen)
	copy(phi[1:], chosen)
	return phi
}

func (s *upScript) stream(ref []byte, off int) []byte {
	body := append([]byte(nil), s.hdr...)
	body = append(body, forkHdr("DATA", s.N-off)...)
	body = append(body, s.data[off:]...)
	if s.R >= 0 {
		body = append(body, forkHdr("MACR", s.R)...)
		body = append(body, s.rsrc...)
	}
	return append(preamble(ref, len(body)), body...)
}

// position maps the abstract stream position `at` to a real offset of the connection's stream.
func (s *upScript) position(r *rand.Rand, at map[string]any, off int) int {
	H := len(s.hdr) + 16
	dn := s.N - off
	i := num(at, "i")
	switch at["seg"].(string) {
	case "pre":
		return pick(r, 0, 0, 1, 4, 8, 15, r.Intn(16))
	case "hdr":
		switch i {
		case 0:
			return 16
		case 2:
			return 16 + H - 1
		}
		// the four parts of the header region: FILP header [0,24), INFO fork header [24,40), info fork [40,H-16),
		// DATA fork header [H-16,H); a script may name the part (hseg), otherwise it is drawn
		seg := s.hseg
		if seg < 0 || seg > 3 {
			seg = r.Intn(4)
		}
		switch seg {
		case 0:
			return 16 + pick(r, 1, 4, 23, 24, 1+r.Intn(23))
		case 1:
			return 16 + pick(r, 25, 39, 40, 25+r.Intn(15))
		case 2:
			return 16 + pick(r, 41, 111, 112, 113, H-17, H-16, 41+r.Intn(H-16-41))
		}
		return 16 + pick(r, H-15, H-2, H-15+r.Intn(14))
	case "data":
		d := 0
		if i < len(s.phi) {
			d = s.phi[i] - off
		}
		if d < 0 {
			d = 0
		}
		if d > dn {
			d = dn
		}
		return 16 + H + d
	case "macr":
		return 16 + H + dn + pick(r, 0, 0, 1, 4, 15, r.Intn(16))
	case "rsrc":
		x := 0
		if i < len(s.psi) {
			x = s.psi[i]
		}
		return 16 + H + dn + 16 + x
	}
	t := 16 + H + dn
	if s.R >= 0 {
		t += 16 + s.R
	}
	return t
}

func (s *upScript) observe() map[string]any {
	o := map[string]any{"finalExists": false, "finalSize": -1, "finalMatches": false, "foreignIntact": false,
		"incExists": false, "incSize": -1, "prefixOK": false, "rsrcSide": -1, "infoSide": -1}
	if b, err := os.ReadFile(s.final); err == nil {
		o["finalExists"] = true
		o["finalSize"] = len(b)
		o["finalMatches"] = bytes.Equal(b, s.data)
		o["foreignIntact"] = string(b) == foreignMarker
	}
	if b, err := os.ReadFile(s.final + ".incomplete"); err == nil {
		o["incExists"] = true
		o["incSize"] = len(b)
		o["prefixOK"] = len(b) <= len(s.data) && bytes.Equal(b, s.data[:len(b)])
	}
	d, f := filepath.Split(s.final)
	if st, err := os.Stat(filepath.Join(d, ".rsrc_"+f)); err == nil {
		o["rsrcSide"] = int(st.Size())
	}
	if st, err := os.Stat(filepath.Join(d, ".info_"+f)); err == nil {
		o["infoSide"] = int(st.Size())
	}
	return o
}

func (k *worker) upRun(run int, sc map[string]any, big int, corrupt string) ([]map[string]any, error) {
	r := rand.New(rand.NewSource(seed()*2000003 + int64(run)))
	n, ra := num(sc, "n"), num(sc, "r")
	s := &upScript{run: run, N: concreteSize(n, run, big), R: concreteRsrc(r, ra)}
	if n >= 2 && s.N < n {
		s.N = n
	}
	s.phi = monotone(r, n, s.N)
	if ra > 0 {
		if s.R < ra {
			s.R = ra
		}
		s.psi = monotone(r, ra, s.R)
	} else {
		s.psi = []int{0}
	}
	s.name = nameClasses[nameOrder[(run+int(seed()))%len(nameOrder)]]
	s.pf = r.Intn(2) == 0
	if v, ok := sc["pf"].(bool); ok { // the script fixes Config.PreserveResourceForks
		s.pf = v
	}
	s.hseg = -1
	if _, ok := sc["hseg"]; ok {
		s.hseg = num(sc, "hseg")
	}
	s.segm = r.Intn(3) == 0
	s.data = content(r, s.N, 'F')
	if s.R >= 0 {
		s.rsrc = content(r, s.R, 'M')
	}
	forks := 2
	if s.R >= 0 {
		forks = 3
	}
	comment := bytes.Repeat([]byte("k"), pick(r, 0, 0, 5, 120))
	inf := infoFork([]byte(s.name.Wire), comment)
	s.hdr = append([]byte("FILP"), 0, 1)
	s.hdr = append(s.hdr, make([]byte, 16)...)
	s.hdr = append(s.hdr, sim.U16(forks)...)
	s.hdr = append(s.hdr, forkHdr("INFO", len(inf))...)
	s.hdr = append(s.hdr, inf...)
	s.dir = fmt.Sprintf("u%06d", run)
	base := filepath.Join(k.w.Root, s.dir)
	if err := os.MkdirAll(base, 0755); err != nil {
		return nil, err
	}
	defer os.RemoveAll(base)
	s.final = filepath.Join(base, s.name.Disk)
	k.w.Srv.Config.PreserveResourceForks = s.pf

	evs := []map[string]any{{"op": "world", "run": run, "n": s.N, "r": s.R,
		"L":  map[string]any{"pre": 16, "hdr": len(s.hdr) + 16, "macr": 16},
		"pf": s.pf, "nameLen": len(s.name.Disk), "abs": map[string]any{"n": n, "r": ra}}}
	emit := func(ev map[string]any) {
		ev["run"] = run
		evs = append(evs, ev)
	}
	nameF := sim.Fld(sim.FFileName, []byte(s.name.Wire))
	pathF := sim.Fld(sim.FFilePath, sim.EncPath(s.dir))

	var ref []byte // reference number of the pending grant
	off := 0       // offset the client resumes from (as the server reported)
	var pend []byte
	pendSet := false
	request := func(resume bool, withSize bool) (bool, error) {
		ev := map[string]any{"op": "request", "replied": false, "err": false, "has107": false}
		fields := []sim.F{nameF, pathF}
		if resume {
			ev["op"] = "resume"
			ev["has203"], ev["rflt"], ev["off"], ev["incSize"] = false, false, -1, -1
			if st, err := os.Stat(s.final + ".incomplete"); err == nil {
				ev["incSize"] = int(st.Size())
			}
			fields = append(fields, sim.Fld(sim.FFileTransferOptions, sim.U16(1)))
		}
		// the transfer size (field 108) is optional in a 203 request, with and without the resume option: both
		// variants of both requests (the step may fix it, otherwise it is drawn)
		if withSize {
			total := len(s.hdr) + 16 + s.N
			if s.R >= 0 {
				total += 16 + s.R
			}
			if resume {
				if st, err := os.Stat(s.final + ".incomplete"); err == nil {
					total -= int(st.Size())
				}
			}
			fields = append(fields, sim.Fld(sim.FTransferSize, sim.U32(total)))
		}
		ev["size108"] = withSize
		rep, replied, closed := k.ask(sim.TUploadFile, fields...)
		ev["replied"] = replied
		ev["closed"] = closed
		ev["err"] = replied && rep.Err != 0
		rf, ok := rep.Get(sim.FRefNum)
		ok = replied && ok && len(rf) == 4 && rep.Err == 0
		ev["has107"] = ok
		ref, off = nil, 0
		if ok {
			ref = rf
		}
		if resume {
			if rd, ok := rep.Get(sim.FFileResumeData); ok {
				ev["has203"] = true
				if len(rd) >= 58 && string(rd[0:4]) == "RFLT" && string(rd[42:46]) == "DATA" {
					ev["rflt"] = true
					ev["off"] = sim.BE(rd[46:50])
					off = sim.BE(rd[46:50])
					if off > s.N {
						off = s.N
					}
				}
			}
			if corrupt == "off" && run%5 == 2 {
				ev["off"] = ev["off"].(int) + 1
			}
		}
		emit(ev)
		return ref != nil, nil
	}

	sizeOf := func(step map[string]any) bool {
		if v, ok := step["size"].(bool); ok {
			return v
		}
		return r.Intn(2) == 0
	}
	steps, _ := sc["steps"].([]any)
	for _, st := range steps {
		step := st.(map[string]any)
		switch step["op"].(string) {
		case "request":
			ok, err := request(false, sizeOf(step))
			if err != nil {
				return nil, err
			}
			if !ok {
				return evs, nil
			}
			pend, pendSet = nil, false
		case "resume":
			_, statErr := os.Stat(s.final + ".incomplete")
			ok, err := request(statErr == nil, sizeOf(step)) // no partial file in the listing: a client starts afresh
			if err != nil {
				return nil, err
			}
			if !ok {
				return evs, nil
			}
			pend, pendSet = nil, false
		case "plant":
			if err := os.WriteFile(s.final, []byte(foreignMarker), 0644); err != nil {
				return nil, err
			}
			emit(map[string]any{"op": "plant"})
		case "deliver":
			if ref == nil {
				return evs, nil
			}
			full := s.stream(ref, off)
			p := s.position(r, step["at"].(map[string]any), off)
			if p > len(full) {
				p = len(full)
			}
			pend, pendSet = full[:p], true
			if p > 0 {
				emit(map[string]any{"op": "deliver", "j": p, "off": off, "total": len(full)})
			}
		case "cut", "publish":
			if ref == nil {
				return evs, nil
			}
			op := step["op"].(string)
			if !pendSet { // cut before any byte of the stream was delivered
				full := s.stream(ref, off)
				p := 0
				if at, ok := step["at"].(map[string]any); ok {
					p = s.position(r, at, off)
				}
				pend = full[:p]
				if p > 0 {
					emit(map[string]any{"op": "deliver", "j": p, "off": off, "total": len(full)})
				}
			}
			var segs []int
			if len(pend) >= 16 {
				segs = []int{16}
				if s.segm {
					for left := len(pend) - 16; left > 0; {
						g := pick(r, 1, 7, 24, 100, 1000, 4096, 40000)
						segs = append(segs, g)
						left -= g
					}
				}
			}
			conn := sim.NewScriptConn(pend, segs)
			// a dying peer shows up either as a connection error (RST) or as a clean end of stream (FIN): both flavours
			flavour := "end"
			if op == "cut" {
				flavour = "eof"
				if r.Intn(2) == 0 {
					flavour = "error"
				}
			}
			conn.Cut = flavour == "error"
			res := k.serve(conn, ref, 120*time.Second)
			if res.Hung {
				return nil, fmt.Errorf("run %d: upload connection did not finish in 120 s", run)
			}
			o := s.observe()
			if corrupt == "inc" && op == "cut" && run%5 == 1 && o["incExists"].(bool) {
				o["incSize"] = o["incSize"].(int) + 1
			}
			via := "cleanup" // the handler reached its deferred cleanup (a transfer had been identified)
			if res.Returned {
				via = "return"
			}
			emit(map[string]any{"op": op, "o": o, "ended": via, "flavour": flavour, "handlerErr": res.Err, "p": len(pend)})
			ref, pend, pendSet = nil, nil, false
		case "download":
			var rs []byte
			if s.pf {
				rs = s.rsrc
			}
			o, err := k.download(s.dir, s.name.Wire, false, 0, false, s.data, rs, []byte(s.name.Disk))
			if err != nil {
				return nil, err
			}
			emit(map[string]any{"op": "download", "replied": o["replied"], "f207": o["f207"], "dataMatches": o["dataMatches"],
				"tail": o["tail"], "hdrLen": o["hdrLen"]})
		}
	}
	return evs, nil
}

func runUp(args []string) error {
	fs := flag.NewFlagSet("up", flag.ExitOnError)
	in := fs.String("scripts", "", "ndjson of upload behaviours")
	out := fs.String("out", "log.ndjson", "event log")
	par := fs.Int("par", 24, "parallel worlds")
	big := fs.Int("big", 0, "size of the occasional very large file (0: none)")
	first := fs.Int("first", 1, "run number of the first script (run numbers seed the concretisation)")
	corrupt := fs.String("corrupt", "", "binding demonstration: corrupt one logged fact (inc|off)")
	_ = fs.Parse(args)
	scripts, err := readScripts(*in)
	if err != nil {
		return err
	}
	lg, err := sim.NewLog(*out)
	if err != nil {
		return err
	}
	type job struct {
		run int
		s   map[string]any
	}
	jobs := make(chan job)
	var wg sync.WaitGroup
	var mu sync.Mutex
	var firstErr error
	fail := func(e error) {
		mu.Lock()
		if firstErr == nil {
			firstErr = e
		}
		mu.Unlock()
	}
	for i := 0; i < *par; i++ {
		wg.Add(1)
		go func() {
			defer wg.Done()
			k, err := newWorker()
			if err != nil {
				fail(err)
				for range jobs {
				}
				return
			}
			defer k.close()
			for j := range jobs {
				evs, err := k.upRun(j.run, j.s, *big, *corrupt)
				if err != nil {
					fail(err)
					continue
				}
				lg.EmitAll(evs)
			}
		}()
	}
	for i, s := range scripts {
		jobs <- job{*first + i, s}
	}
	close(jobs)
	wg.Wait()
	if err := lg.Close(); err != nil {
		return err
	}
	return firstErr
}
