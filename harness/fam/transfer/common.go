// Package transfer is the driver/observer of the C08 (download) and C09 (upload with cuts) checks.
//
// A logged-in reference client (sim.Client, independent codec) sends the real 202 / 203 transactions, takes the
// reference number from the reply and then talks to the real handleFileTransfer over an in-memory connection:
// a sim.Pipe for downloads (everything the server writes is collected), a sim.ScriptConn for uploads (the client's
// stream ends at the scripted offset, with a connection error if the script says "cut").  What is logged are
// structural facts (sizes, offsets, booleans), never file contents and never an expectation.
package transfer

import (
	"bufio"
	"context"
	"encoding/json"
	"fmt"
	"io"
	"math/rand"
	"os"
	"strconv"
	"sync"
	"time"

	"github.com/jhalter/mobius/hotline"

	"verifharness/sim"
)

func Run(args []string) error {
	if len(args) < 1 {
		return fmt.Errorf("usage: vh-transfer dl|up [flags]")
	}
	switch args[0] {
	case "dl":
		return runDl(args[1:])
	case "up":
		return runUp(args[1:])
	}
	return fmt.Errorf("unknown mode %q", args[0])
}

func seed() int64 {
	s, _ := strconv.ParseInt(os.Getenv("VERIF_SEED"), 10, 64)
	if s == 0 {
		s = 1
	}
	return s
}

func readScripts(path string) ([]map[string]any, error) {
	f, err := os.Open(path)
	if err != nil {
		return nil, err
	}
	defer f.Close()
	var out []map[string]any
	sc := bufio.NewScanner(f)
	sc.Buffer(make([]byte, 1<<20), 1<<26)
	for sc.Scan() {
		if len(sc.Bytes()) == 0 {
			continue
		}
		var m map[string]any
		if err := json.Unmarshal(sc.Bytes(), &m); err != nil {
			return nil, err
		}
		out = append(out, m)
	}
	return out, sc.Err()
}

func num(m map[string]any, k string) int {
	if v, ok := m[k].(float64); ok {
		return int(v)
	}
	return 0
}

func boolean(m map[string]any, k string) bool {
	v, _ := m[k].(bool)
	return v
}

// notifyMgr wraps the server's FileTransferMgr (an interface field of hotline.Server): everything is forwarded to
// the real manager; Delete additionally wakes whoever watches that reference number.  handleFileTransfer calls
// Delete in its deferred cleanup right after the transfer handler returned and BEFORE its 3 s sleep, so "Delete
// was called" means "the server has finished everything it does for this connection".
type notifyMgr struct {
	inner hotline.FileTransferMgr
	mu    sync.Mutex
	watch map[hotline.FileTransferID]chan struct{}
}

func (m *notifyMgr) Add(ft *hotline.FileTransfer)                        { m.inner.Add(ft) }
func (m *notifyMgr) Get(id hotline.FileTransferID) *hotline.FileTransfer { return m.inner.Get(id) }
func (m *notifyMgr) Delete(id hotline.FileTransferID) {
	m.inner.Delete(id)
	m.mu.Lock()
	if ch, ok := m.watch[id]; ok {
		close(ch)
		delete(m.watch, id)
	}
	m.mu.Unlock()
}
func (m *notifyMgr) Watch(id hotline.FileTransferID) chan struct{} {
	m.mu.Lock()
	defer m.mu.Unlock()
	ch := make(chan struct{})
	m.watch[id] = ch
	return ch
}

type worker struct {
	w   *sim.World
	c   *sim.Client
	mgr *notifyMgr
}

func newWorker() (*worker, error) {
	w, err := sim.NewWorld(sim.WorldOpts{})
	if err != nil {
		return nil, err
	}
	mgr := &notifyMgr{inner: w.Srv.FileTransferMgr, watch: map[hotline.FileTransferID]chan struct{}{}}
	w.Srv.FileTransferMgr = mgr
	c := w.Dial("")
	rep, err := c.Login(sim.LoginOpts{Login: "admin", Password: "admin", Name: "verif"})
	if err != nil {
		return nil, fmt.Errorf("login: %w", err)
	}
	if rep.Err != 0 {
		return nil, fmt.Errorf("login refused")
	}
	return &worker{w: w, c: c, mgr: mgr}, nil
}

func (k *worker) close() { k.w.Close() }

// ask sends a request followed by a keep-alive and waits for the keep-alive's reply: the server handles a
// connection's transactions one after the other and the world's pump delivers in order, so once the keep-alive is
// answered the request's reply has arrived - or there is none (replied = false).  Bounded; never an expectation.
// When the server closed the connection instead, a new client is logged in for the following scripts.
func (k *worker) ask(typ int, fields ...sim.F) (rep sim.Tx, replied bool, closed bool) {
	id := k.c.Send(typ, fields...)
	kid := k.c.Send(sim.TKeepAlive)
	if _, err := k.c.WaitReply(kid, 30*time.Second); err != nil {
		if r, err2 := k.c.WaitReply(id, 0); err2 == nil {
			rep, replied = r, true
		}
		k.c.Close()
		c := k.w.Dial("")
		if lr, lerr := c.Login(sim.LoginOpts{Login: "admin", Password: "admin", Name: "verif"}); lerr == nil && lr.Err == 0 {
			k.c = c
		}
		return rep, replied, true
	}
	r, err := k.c.WaitReply(id, 0)
	if err != nil {
		return sim.Tx{}, false, false
	}
	return r, true, false
}

// transferResult: how the server side of one transfer connection ended.
type transferResult struct {
	Returned bool   // the handler returned before any Delete (no transfer was identified)
	Err      string // the handler's error, when it returned
	Hung     bool
}

// serve runs the real handleFileTransfer on conn and waits until the server has finished its work for it: the
// handler returned, or it reached its deferred cleanup (Delete of the reference number).  Bounded.
func (k *worker) serve(conn io.ReadWriter, ref []byte, d time.Duration) transferResult {
	var id hotline.FileTransferID
	copy(id[:], ref)
	sig := k.mgr.Watch(id)
	done := make(chan error, 1)
	go func() {
		done <- k.w.Srv.VerifHandleFileTransfer(context.Background(), conn, k.c.Addr)
	}()
	select {
	case err := <-done:
		r := transferResult{Returned: true}
		if err != nil {
			r.Err = err.Error()
		}
		return r
	case <-sig:
		return transferResult{}
	case <-time.After(d):
		return transferResult{Hung: true}
	}
}

func preamble(ref []byte, size int) []byte {
	b := []byte("HTXF")
	b = append(b, ref...)
	b = append(b, sim.U32(size)...)
	b = append(b, 0, 0, 0, 0)
	return b
}

// name classes: what is on disk (UTF-8) and what the client puts in the file name field (Mac Roman).
type nameClass struct{ Disk, Wire string }

var nameClasses = map[string]nameClass{
	"one":      {"a", "a"},
	"ascii":    {"file.txt", "file.txt"},
	"long31":   {"abcdefghijklmnopqrstuvwxyz01234", "abcdefghijklmnopqrstuvwxyz01234"},
	"macroman": {"café-ü.txt", "caf\x8e-\x9f.txt"}, // e-acute = 0x8E, u-umlaut = 0x9F in Mac OS Roman
}

var nameOrder = []string{"one", "ascii", "long31", "macroman"}

// content draws n pseudo-random bytes whose first byte is not avoid (so that a data fork never looks like a
// "FILP" header and a resource fork never like a "MACR" header) and that contain no 'D' (no accidental "DATA" tag).
func content(r *rand.Rand, n int, avoid byte) []byte {
	b := make([]byte, n)
	r.Read(b)
	for i := range b {
		if b[i] == 'D' || (i == 0 && b[i] == avoid) {
			b[i] = 'x'
		}
	}
	return b
}

// infoFork builds an information fork as the protocol document lays it out.
func infoFork(name, comment []byte) []byte {
	b := []byte("AMACTEXTttxt")
	b = append(b, 0, 0, 0, 0, 0, 0, 1, 0)
	b = append(b, make([]byte, 32)...)
	b = append(b, 0x07, 0x70, 0, 0, 0x01, 0x02, 0x03, 0x04, 0x07, 0x70, 0, 0, 0x01, 0x02, 0x03, 0x05)
	b = append(b, 0, 0)
	b = append(b, sim.U16(len(name))...)
	b = append(b, name...)
	b = append(b, sim.U16(len(comment))...)
	b = append(b, comment...)
	return b
}

func forkHdr(tag string, size int) []byte {
	b := []byte(tag)
	b = append(b, 0, 0, 0, 0, 0, 0, 0, 0)
	return append(b, sim.U32(size)...)
}

func pick(r *rand.Rand, xs ...int) int { return xs[r.Intn(len(xs))] }
