package transfer

import (
	"bytes"
	"flag"
	"fmt"
	"math/rand"
	"os"
	"path/filepath"
	"sync"
	"time"

	"verifharness/sim"
)

// `vh-transfer dl`: every script line is one download class emitted by TLC (Gen_Transfer_C08):
//   {n, k, resume, preview, rsrc, info, nc, cl}   abstract data length 0..4, abstract resume offset, forks, name class
// The class is concretised (seeded) to real sizes, the file and its side files are created, the real 202 request
// is sent, the stream is read from the transfer connection, and the structural facts are logged.

var sizeClasses = map[int][]int{
	0: {0},
	1: {1},
	2: {2, 511, 512, 513},
	3: {4095, 4096, 4097, 32767, 32768, 32769},
	4: {65536, 65536, 1<<20 + 1},
}

// concreteSize maps an abstract data length to a real one, cycling through the class with the run number.
func concreteSize(n, run int, big int) int {
	cl := sizeClasses[n]
	if n == 4 && big > 0 && run%37 == 5 {
		return big
	}
	return cl[(run+int(seed()))%len(cl)]
}

// interior picks a real offset strictly inside (0, N) for an abstract interior offset a of n.
func interior(r *rand.Rand, a, n, N int) int {
	if N < 2 {
		return 0
	}
	var cands []int
	switch {
	case a == 1:
		cands = []int{1, 1, 2, 1 + r.Intn(N-1)}
	case a == n-1:
		cands = []int{N - 1, N - 1, N - 2, 1 + r.Intn(N-1)}
	default:
		cands = []int{N / 2, 4096, 32768, 32767, 32769, 65536, 1 + r.Intn(N-1)}
	}
	for tries := 0; tries < 20; tries++ {
		c := cands[r.Intn(len(cands))]
		if c >= 1 && c <= N-1 {
			return c
		}
	}
	return 1 + r.Intn(N-1)
}

func concreteRsrc(r *rand.Rand, abs int) int {
	switch {
	case abs < 0:
		return -1
	case abs == 0:
		return 0
	}
	return pick(r, 1, 2, 300, 300, 4096, 70000)
}

func rfltRequest(k int) []byte {
	b := []byte("RFLT")
	b = append(b, 0, 1)
	b = append(b, make([]byte, 34)...)
	b = append(b, 0, 2)
	b = append(b, []byte("DATA")...)
	b = append(b, sim.U32(k)...)
	b = append(b, make([]byte, 8)...)
	b = append(b, []byte("MACR")...)
	b = append(b, make([]byte, 12)...)
	return b
}

// streamFacts describes a download stream structurally.  file: the stored data fork; k: the requested offset;
// rsrc: the stored resource fork (nil: none); expName: the name the header must carry.
func streamFacts(stream, file []byte, k int, rsrc, expName []byte) map[string]any {
	rem := file[k:]
	h := -1
	filp := len(stream) >= 4 && string(stream[:4]) == "FILP"
	if !filp {
		if bytes.HasPrefix(stream, rem) {
			h = 0
		}
	} else {
		limit := len(stream) - 16
		if limit > 70000 { // the header is at most 24+16+72+name+2+65535+16 bytes
			limit = 70000
		}
		for off := 40; off <= limit; off++ {
			if string(stream[off:off+4]) == "DATA" && off+16+len(rem) <= len(stream) && bytes.Equal(stream[off+16:off+16+len(rem)], rem) {
				h = off + 16
				break
			}
		}
	}
	o := map[string]any{"streamLen": len(stream), "hdrLen": h, "filp": filp, "dataMatches": h >= 0,
		"infoSizeField": 0, "infoForkLen": 0, "nameLenField": 0, "nameOK": false, "commentLenField": -1}
	if h > 0 && len(stream) >= 112 {
		o["infoSizeField"] = sim.BE(stream[36:40])
		o["infoForkLen"] = h - 16 - 40
		nl := sim.BE(stream[110:112])
		o["nameLenField"] = nl
		o["nameOK"] = 112+len(expName) <= len(stream) && bytes.Equal(stream[112:112+len(expName)], expName)
		if 112+nl+2 <= len(stream) {
			o["commentLenField"] = sim.BE(stream[112+nl : 112+nl+2])
		}
	}
	tail := map[string]any{"kind": "none", "size": 0, "bodyLen": 0, "match": rsrc == nil || len(rsrc) == 0}
	if h >= 0 {
		rest := stream[h+len(rem):]
		switch {
		case len(rest) == 0:
		case len(rest) >= 16 && string(rest[:4]) == "MACR":
			tail = map[string]any{"kind": "macr", "size": sim.BE(rest[12:16]), "bodyLen": len(rest) - 16, "match": bytes.Equal(rest[16:], rsrc)}
		default:
			tail = map[string]any{"kind": "raw", "size": 0, "bodyLen": len(rest), "match": bytes.Equal(rest, rsrc)}
		}
	}
	o["tail"] = tail
	return o
}

// download performs one real download and returns the reply facts merged with the stream facts.
func (k *worker) download(dir, wire string, resume bool, off int, preview bool, file, rsrc, expName []byte) (map[string]any, error) {
	fields := []sim.F{sim.Fld(sim.FFileName, []byte(wire)), sim.Fld(sim.FFilePath, sim.EncPath(dir))}
	if resume {
		fields = append(fields, sim.Fld(sim.FFileResumeData, rfltRequest(off)))
	}
	if preview {
		fields = append(fields, sim.Fld(sim.FFileTransferOptions, sim.U16(2)))
	}
	rep, replied, closed := k.ask(sim.TDownloadFile, fields...)
	ref, has107 := rep.Get(sim.FRefNum)
	f108, _ := rep.Get(sim.FTransferSize)
	f207, _ := rep.Get(sim.FFileSize)
	has107 = replied && has107 && len(ref) == 4 && rep.Err == 0
	o := map[string]any{"replied": replied, "closed": closed, "err": replied && rep.Err != 0, "has107": has107,
		"f108": sim.BE(f108), "f207": sim.BE(f207)}
	var stream []byte
	if has107 {
		ce, se := sim.Pipe()
		_, _ = ce.Write(preamble(ref, 0))
		res := k.serve(se, ref, 120*time.Second)
		if res.Hung {
			return nil, fmt.Errorf("download of %s/%s did not finish in 120 s", dir, wire)
		}
		stream, _ = ce.TakeAll()
		o["handlerErr"] = res.Err
	}
	for key, v := range streamFacts(stream, file, off, rsrc, expName) {
		o[key] = v
	}
	return o, nil
}

func runDl(args []string) error {
	fs := flag.NewFlagSet("dl", flag.ExitOnError)
	in := fs.String("scripts", "", "ndjson of download classes")
	out := fs.String("out", "log.ndjson", "event log")
	par := fs.Int("par", 24, "parallel worlds")
	big := fs.Int("big", 0, "size of the occasional very large file (0: none)")
	first := fs.Int("first", 1, "run number of the first script (run numbers seed the concretisation)")
	corrupt := fs.String("corrupt", "", "binding demonstration: corrupt one logged fact (f207|hdrLen|tail)")
	_ = fs.Parse(args)
	cases, err := readScripts(*in)
	if err != nil {
		return err
	}
	lg, err := sim.NewLog(*out)
	if err != nil {
		return err
	}
	type job struct {
		run int
		c   map[string]any
	}
	jobs := make(chan job)
	var wg sync.WaitGroup
	var mu sync.Mutex
	var firstErr error
	fail := func(e error) {
		mu.Lock()
		if firstErr == nil {
			firstErr = e
		}
		mu.Unlock()
	}
	for i := 0; i < *par; i++ {
		wg.Add(1)
		go func() {
			defer wg.Done()
			k, err := newWorker()
			if err != nil {
				fail(err)
				for range jobs {
				}
				return
			}
			defer k.close()
			for j := range jobs {
				ev, err := k.dlCase(j.run, j.c, *big)
				if err != nil {
					fail(err)
					continue
				}
				if *corrupt != "" && j.run%7 == 3 {
					o := ev["o"].(map[string]any)
					switch *corrupt {
					case "f207":
						o["f207"] = o["f207"].(int) + 1
					case "hdrLen":
						o["hdrLen"] = o["hdrLen"].(int) + 1
					case "tail":
						o["tail"].(map[string]any)["match"] = false
						o["tail"].(map[string]any)["bodyLen"] = o["tail"].(map[string]any)["bodyLen"].(int) + 1
					}
				}
				lg.Emit(ev)
			}
		}()
	}
	for i, c := range cases {
		jobs <- job{*first + i, c}
	}
	close(jobs)
	wg.Wait()
	if err := lg.Close(); err != nil {
		return err
	}
	return firstErr
}

func (k *worker) dlCase(run int, c map[string]any, big int) (map[string]any, error) {
	r := rand.New(rand.NewSource(seed()*1000003 + int64(run)))
	n, ka := num(c, "n"), num(c, "k")
	N := concreteSize(n, run, big)
	K := 0
	switch {
	case ka == 0:
	case ka >= n:
		K = N
	default:
		K = interior(r, ka, n, N)
	}
	R := concreteRsrc(r, num(c, "rsrc"))
	nc := nameClasses[c["nc"].(string)]
	dir := fmt.Sprintf("d%06d", run)
	base := filepath.Join(k.w.Root, dir)
	if err := os.MkdirAll(base, 0755); err != nil {
		return nil, err
	}
	file := content(r, N, 'F')
	if err := os.WriteFile(filepath.Join(base, nc.Disk), file, 0644); err != nil {
		return nil, err
	}
	var rsrc []byte
	if R >= 0 {
		rsrc = content(r, R, 'M')
		if err := os.WriteFile(filepath.Join(base, ".rsrc_"+nc.Disk), rsrc, 0644); err != nil {
			return nil, err
		}
	}
	info := boolean(c, "info")
	commentLen := 0
	if info {
		if num(c, "cl") > 0 {
			// around io.ReadAll's first 512-byte buffer (header = 512 at comment 438 with a 1-char name; the name
			// length shifts it), around io.Copy's 32 KiB buffer, and close to the 16-bit limit of the comment length
			cls := []int{1, 17, 200, 379, 380, 381, 382, 383, 438, 439, 600, 4096, 32767, 32768, 32769, 61440,
				382 - len(nc.Disk), 383 - len(nc.Disk)} // header = 512, 513
			commentLen = cls[(run/3+int(seed()))%len(cls)]
		}
		comment := bytes.Repeat([]byte("c"), commentLen)
		if err := os.WriteFile(filepath.Join(base, ".info_"+nc.Disk), infoFork([]byte(nc.Disk), comment), 0644); err != nil {
			return nil, err
		}
	}
	o, err := k.download(dir, nc.Wire, boolean(c, "resume"), K, boolean(c, "preview"), file, rsrc, []byte(nc.Disk))
	if err != nil {
		return nil, err
	}
	_ = os.RemoveAll(base)
	return map[string]any{"op": "dl", "run": run,
		"c": map[string]any{"n": N, "k": K, "resume": boolean(c, "resume"), "preview": boolean(c, "preview"), "rsrc": R,
			"info": info, "nameLen": len(nc.Disk), "commentLen": commentLen},
		"abs": c, "o": o}, nil
}
