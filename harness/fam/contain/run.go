package contain

import (
	"bufio"
	"bytes"
	"encoding/binary"
	"encoding/json"
	"flag"
	"fmt"
	"io"
	"math/rand"
	"net"
	"os"
	"os/exec"
	"strings"
	"sync"
	"sync/atomic"
	"syscall"
	"time"

	"verifharness/sim"
)

func Run(args []string) error {
	if len(args) == 0 {
		return fmt.Errorf("usage: vh-contain child|run ...")
	}
	switch args[0] {
	case "child":
		return runChild(args[1:])
	case "run":
		return runParent(args[1:])
	}
	return fmt.Errorf("unknown mode %q", args[0])
}

// plan is one hostile connection: a base session, the frame to mutate, the mutation and its value class.
type plan struct {
	Sess  string `json:"sess"`  // ctl | prelogin | upload | download | fupload | fdownload
	Frame int    `json:"frame"` // 1-based index into the session's frames
	Mut   string `json:"mut"`   // none | trunc | total | datasz | count | flen | dropfield | shortid | garbage | badhs | size
	Val   int    `json:"val"`   // value class 0..6
}

var vals32 = []uint32{0, 1, 21, 0xffff, 0x10000, 0x7fffffff, 0xffffffff}

type tcpClient struct {
	c     net.Conn
	sp    sim.Splitter
	inbox []sim.Tx
	id    uint32
	pre   int
}

func dialFrom(src net.IP, port int) (net.Conn, error) {
	d := net.Dialer{Timeout: 5 * time.Second}
	if src != nil {
		d.LocalAddr = &net.TCPAddr{IP: src}
	}
	return d.Dial("tcp", fmt.Sprintf("127.0.0.1:%d", port))
}

func (t *tcpClient) readSome(d time.Duration) error {
	buf := make([]byte, 65536)
	_ = t.c.SetReadDeadline(time.Now().Add(d))
	n, err := t.c.Read(buf)
	if n > 0 {
		b := buf[:n]
		if t.pre > 0 {
			k := t.pre
			if k > len(b) {
				k = len(b)
			}
			t.pre -= k
			b = b[k:]
		}
		t.inbox = append(t.inbox, t.sp.Feed(b)...)
	}
	return err
}

func (t *tcpClient) request(d time.Duration, typ int, fields ...sim.F) (sim.Tx, error) {
	t.id++
	id := t.id
	if _, err := t.c.Write(sim.NewTx(typ, id, fields...).Encode()); err != nil {
		return sim.Tx{}, err
	}
	deadline := time.Now().Add(d)
	for {
		for i, x := range t.inbox {
			if x.IsReply == 1 && x.ID == id {
				t.inbox = append(t.inbox[:i:i], t.inbox[i+1:]...)
				return x, nil
			}
		}
		left := time.Until(deadline)
		if left <= 0 {
			return sim.Tx{}, fmt.Errorf("timeout")
		}
		if err := t.readSome(left); err != nil {
			if ne, ok := err.(net.Error); ok && ne.Timeout() {
				continue
			}
			return sim.Tx{}, err
		}
	}
}

func loginTCP(src net.IP, port int, login, pw, name string) (*tcpClient, error) {
	c, err := dialFrom(src, port)
	if err != nil {
		return nil, err
	}
	t := &tcpClient{c: c, pre: 8, id: 100}
	if _, err := c.Write(sim.HandshakeBytes); err != nil {
		return nil, err
	}
	rep, err := t.request(10*time.Second, sim.TLogin, sim.Fld(sim.FUserLogin, sim.Obfuscate([]byte(login))), sim.Fld(sim.FUserPassword, sim.Obfuscate([]byte(pw))),
		sim.Fld(sim.FUserName, []byte(name)), sim.Fld(sim.FUserIconID, []byte{0, 1}))
	if err != nil {
		return nil, fmt.Errorf("login: %w", err)
	}
	if rep.Err != 0 {
		return nil, fmt.Errorf("login refused")
	}
	return t, nil
}

// ---- sessions -------------------------------------------------------------------------------------------------

func ffo(name string, data []byte) []byte {
	var b bytes.Buffer
	b.WriteString("FILP")
	b.Write([]byte{0, 1})
	b.Write(make([]byte, 16))
	b.Write([]byte{0, 2})
	info := new(bytes.Buffer)
	info.WriteString("AMAC")
	info.WriteString("TEXT")
	info.WriteString("ttxt")
	info.Write(make([]byte, 4+4+32+8+8+2))
	info.Write([]byte{0, byte(len(name))})
	info.WriteString(name)
	info.Write([]byte{0, 0})
	b.WriteString("INFO")
	b.Write(make([]byte, 8))
	_ = binary.Write(&b, binary.BigEndian, uint32(info.Len()))
	b.Write(info.Bytes())
	b.WriteString("DATA")
	b.Write(make([]byte, 8))
	_ = binary.Write(&b, binary.BigEndian, uint32(len(data)))
	b.Write(data)
	return b.Bytes()
}

func preamble(ref []byte, size int) []byte {
	b := []byte("HTXF")
	b = append(b, ref...)
	b = append(b, sim.U32(size)...)
	return append(b, 0, 0, 0, 0)
}

// ctlFrames: the byte frames of a well-formed control session (handshake first).
// adm: the session logs in with the operator account "op" (every privilege except account administration) and aims
// its disconnect request at a user ID nobody has.  The sentinels' accounts cannot be disconnected, so even a
// mangled stream that happens to decode to a kick of a sentinel must leave them alone.
func ctlFrames(rng *rand.Rand, adm bool) [][]byte {
	id := uint32(10)
	login, pw, victim := "guest", []byte(nil), 1
	if adm {
		login, pw, victim = "op", sim.Obfuscate([]byte("op")), 0x7777
	}
	tx := func(typ int, f ...sim.F) []byte { id++; return sim.NewTx(typ, id, f...).Encode() }
	fr := [][]byte{
		sim.HandshakeBytes,
		tx(sim.TLogin, sim.Fld(sim.FUserLogin, sim.Obfuscate([]byte(login))), sim.Fld(sim.FUserPassword, pw), sim.Fld(sim.FVersion, sim.U16(190))),
		tx(sim.TAgreed, sim.Fld(sim.FUserName, []byte("mallory")), sim.Fld(sim.FUserIconID, sim.U16(2)), sim.Fld(sim.FOptions, sim.U16(0))),
		tx(sim.TGetUserNameList),
		tx(sim.TChatSend, sim.Fld(sim.FData, []byte("hi there"))),
		tx(sim.TGetFileNameList, sim.Fld(sim.FFilePath, sim.EncPath("dir"))),
		tx(sim.TGetFileInfo, sim.Fld(sim.FFileName, []byte("file.txt"))),
		tx(sim.TGetMsgs),
		tx(sim.TOldPostNews, sim.Fld(sim.FData, []byte("a post"))),
		tx(sim.TGetNewsCatNameList),
		tx(sim.TGetNewsArtNameList, sim.Fld(sim.FNewsPath, sim.EncPath("Cat"))),
		tx(sim.TPostNewsArt, sim.Fld(sim.FNewsPath, sim.EncPath("Cat")), sim.Fld(sim.FNewsArtID, sim.U16(0)), sim.Fld(sim.FNewsArtTitle, []byte("t")), sim.Fld(sim.FNewsArtData, []byte("body"))),
		tx(sim.TGetNewsArtData, sim.Fld(sim.FNewsPath, sim.EncPath("Cat")), sim.Fld(sim.FNewsArtID, sim.U16(1))),
		tx(sim.TSendInstantMsg, sim.Fld(sim.FUserID, sim.U16(1)), sim.Fld(sim.FOptions, sim.U16(1)), sim.Fld(sim.FData, []byte("pm"))),
		tx(sim.TInviteNewChat, sim.Fld(sim.FUserID, sim.U16(1))),
		tx(sim.TSetClientUserInfo, sim.Fld(sim.FUserName, []byte("m2")), sim.Fld(sim.FUserIconID, sim.U16(3))),
		tx(sim.TDownloadFile, sim.Fld(sim.FFileName, []byte("file.txt"))),
		tx(sim.TUploadFile, sim.Fld(sim.FFileName, []byte(fmt.Sprintf("up-%d.txt", rng.Int63()))), sim.Fld(sim.FFilePath, sim.EncPath("Uploads")), sim.Fld(sim.FTransferSize, sim.U32(100))),
		tx(sim.TDownloadFldr, sim.Fld(sim.FFileName, []byte("dir"))),
		tx(sim.TGetClientInfoText, sim.Fld(sim.FUserID, sim.U16(1))),
		tx(sim.TDisconnectUser, sim.Fld(sim.FUserID, sim.U16(victim))),
		tx(sim.TUpdateUser, sim.Fld(sim.FData, []byte{0, 1, 0, 101, 0, 2, 0x9e, 0x9e})),
		tx(sim.TJoinChat, sim.Fld(sim.FChatID, []byte{1, 2, 3, 4})),
		tx(sim.TKeepAlive),
	}
	return fr
}

func put32(b []byte, off int, v uint32) {
	if off+4 <= len(b) {
		binary.BigEndian.PutUint32(b[off:], v)
	}
}
func put16(b []byte, off int, v uint16) {
	if off+2 <= len(b) {
		binary.BigEndian.PutUint16(b[off:], v)
	}
}

// mutate applies a plan's mutation to frame k (0-based) of a transaction stream; returns the frames to send and
// whether to stop after the mutated frame.
func mutate(fr [][]byte, k int, p plan, rng *rand.Rand) ([][]byte, bool) {
	if k < 0 || k >= len(fr) {
		return fr, false
	}
	f := append([]byte(nil), fr[k]...)
	v := vals32[p.Val%len(vals32)]
	stop := false
	switch p.Mut {
	case "trunc":
		n := []int{0, 1, 4, 12, 19, 20, 21, 22, len(f) - 1}[p.Val%9]
		if n > len(f) {
			n = len(f)
		}
		if n < 0 {
			n = 0
		}
		f = f[:n]
		stop = true
	case "total":
		put32(f, 12, v)
	case "datasz":
		put32(f, 16, v)
	case "count":
		put16(f, 20, uint16(v))
	case "flen":
		put16(f, 24, uint16(v))
	case "dropfield":
		if len(f) > 22 {
			f = append(f[:20:20], 0, 0)
			put32(f, 12, 2)
			put32(f, 16, 2)
		}
	case "shortid":
		// replace the first field's data by a single byte
		if len(f) >= 26 {
			fid := f[22:24]
			f = append(f[:20:20], 0, 1, fid[0], fid[1], 0, 1, byte(v))
			put32(f, 12, 7)
			put32(f, 16, 7)
		}
	case "garbage":
		n := 1 + rng.Intn(200)
		f = make([]byte, n)
		rng.Read(f)
	case "badhs":
		f = []byte{'T', 'R', 'T', 'P', 'X', 'X', 'X', 'X', 0, 1, 0, 2}
		if p.Val%2 == 1 {
			f = f[:5+rng.Intn(6)]
			stop = true
		}
	}
	out := append([][]byte(nil), fr...)
	out[k] = f
	if stop {
		out = out[:k+1]
	}
	return out, stop
}

type hostileStats struct {
	started, failedDial int64
	mu                  sync.Mutex
	held                []net.Conn // connections kept open (and unread) until the end of the run
}

func (h *hostileStats) hold(c net.Conn) {
	h.mu.Lock()
	h.held = append(h.held, c)
	h.mu.Unlock()
}

// hostile runs one plan from its own source address.
func hostile(p plan, n int, port, tport int, rng *rand.Rand, hs *hostileStats) {
	atomic.AddInt64(&hs.started, 1)
	src := net.IPv4(127, byte(1+(n>>16)&0x7f), byte(n>>8), byte(n))
	switch p.Sess {
	case "nonreader":
		// a logged-in client that asks for a lot and never reads: everybody else must still be served
		t, err := loginTCP(src, port, "guest", "", "deaf")
		if err != nil {
			atomic.AddInt64(&hs.failedDial, 1)
			return
		}
		for i := 0; i < 400+100*p.Val; i++ {
			t.id++
			if _, err := t.c.Write(sim.NewTx(sim.TGetMsgs, t.id).Encode()); err != nil {
				break
			}
		}
		hs.hold(t.c)
	case "kick":
		// the hostile operator disconnects (val: without ban / temporary ban / permanent ban) another hostile user that
		// is logged in with an ordinary account; afterwards registry and counters must still add up
		v, err := loginTCP(src, port, "pleb", "", fmt.Sprintf("victim-%d", n))
		if err != nil {
			atomic.AddInt64(&hs.failedDial, 1)
			return
		}
		hs.hold(v.c)
		o, err := loginTCP(net.IPv4(127, 100, byte(n>>8), byte(n)), port, "op", "op", fmt.Sprintf("kicker-%d", n))
		if err != nil {
			atomic.AddInt64(&hs.failedDial, 1)
			return
		}
		defer o.c.Close()
		rep, err := o.request(5*time.Second, sim.TGetUserNameList)
		if err != nil {
			return
		}
		for _, u := range rep.GetAll(sim.FUsernameWithInfo) {
			if len(u) >= 8 && string(u[8:]) == fmt.Sprintf("victim-%d", n) {
				f := []sim.F{sim.Fld(sim.FUserID, u[0:2])}
				if p.Val%3 > 0 {
					f = append(f, sim.Fld(sim.FOptions, sim.U16(p.Val%3)))
				}
				_, _ = o.request(5*time.Second, sim.TDisconnectUser, f...)
			}
		}
		drain(v.c, 1500*time.Millisecond) // the victim is closed about a second later
	case "lurker":
		// a logged-in client that gives itself odd user info (icon of 0 / 1 / 3 / 4 bytes, empty or very long name,
		// one-byte options) and then just stays: every later user list, chat join or info request of the others
		// has to serialise that entry
		t, err := loginTCP(src, port, "guest", "", "lurker")
		if err != nil {
			atomic.AddInt64(&hs.failedDial, 1)
			return
		}
		icon := [][]byte{{}, {7}, {0, 0, 7}, {0, 0, 0, 7}, {0, 7}, {0, 7}, {0, 7}}[p.Val%7]
		name := [][]byte{[]byte("lurk"), []byte("lurk"), []byte("lurk"), []byte("lurk"), {}, bytes.Repeat([]byte("n"), 300), []byte("lurk")}[p.Val%7]
		opts := sim.U16(0)
		if p.Val%7 == 6 {
			opts = []byte{1}
		}
		t.id++
		_, _ = t.c.Write(sim.NewTx(sim.TSetClientUserInfo, t.id, sim.Fld(sim.FUserName, name), sim.Fld(sim.FUserIconID, icon), sim.Fld(sim.FOptions, opts)).Encode())
		drain(t.c, 100*time.Millisecond)
		hs.hold(t.c)
	case "scan":
		// a port scan of the transfer port (preambles with reference numbers nobody was given) while logged-in
		// clients of the same peer request downloads at full speed: lookups and registrations in the transfer
		// table at the same moment
		var wg sync.WaitGroup
		for k := 0; k < 4; k++ {
			wg.Add(2)
			go func(k int) {
				defer wg.Done()
				t, err := loginTCP(src, port, "guest", "", "scan")
				if err != nil {
					atomic.AddInt64(&hs.failedDial, 1)
					return
				}
				defer t.c.Close()
				for i := 0; i < 150+50*p.Val; i++ {
					t.id++
					if _, err := t.c.Write(sim.NewTx(sim.TDownloadFile, t.id, sim.Fld(sim.FFileName, []byte("file.txt"))).Encode()); err != nil {
						return
					}
					if i%25 == 24 {
						drain(t.c, 5*time.Millisecond)
					}
				}
				drain(t.c, 150*time.Millisecond)
			}(k)
			go func(k int) {
				defer wg.Done()
				r := rand.New(rand.NewSource(int64(n)*31 + int64(k)))
				for i := 0; i < 150+50*p.Val; i++ {
					y, err := dialFrom(src, tport)
					if err != nil {
						return
					}
					ref := make([]byte, 4)
					r.Read(ref)
					_, _ = y.Write(preamble(ref, 0))
					drain(y, 2*time.Millisecond)
					y.Close()
				}
			}(k)
		}
		wg.Wait()
	case "ctl", "adm", "prelogin":
		c, err := dialFrom(src, port)
		if err != nil {
			atomic.AddInt64(&hs.failedDial, 1)
			return
		}
		defer c.Close()
		fr := ctlFrames(rng, p.Sess == "adm")
		k := p.Frame - 1
		if p.Sess == "prelogin" {
			k = p.Frame % 2 // handshake or login frame
		}
		fr, _ = mutate(fr, k, p, rng)
		for _, f := range fr {
			if _, err := c.Write(f); err != nil {
				break
			}
		}
		drain(c, 150*time.Millisecond)
	default:
		hostileTransfer(p, src, port, tport, rng, hs)
	}
}

func drain(c net.Conn, d time.Duration) {
	buf := make([]byte, 32768)
	deadline := time.Now().Add(d)
	for time.Now().Before(deadline) {
		_ = c.SetReadDeadline(time.Now().Add(50 * time.Millisecond))
		if _, err := c.Read(buf); err != nil {
			if ne, ok := err.(net.Error); ok && ne.Timeout() {
				continue
			}
			return
		}
	}
}

func hostileTransfer(p plan, src net.IP, port, tport int, rng *rand.Rand, hs *hostileStats) {
	t, err := loginTCP(src, port, "guest", "", "xfer")
	if err != nil {
		atomic.AddInt64(&hs.failedDial, 1)
		return
	}
	defer t.c.Close()
	name := fmt.Sprintf("h-%d.bin", rng.Int63())
	data := bytes.Repeat([]byte{0x5a}, 300)
	var rep sim.Tx
	switch p.Sess {
	case "upload":
		rep, err = t.request(5*time.Second, sim.TUploadFile, sim.Fld(sim.FFileName, []byte(name)), sim.Fld(sim.FFilePath, sim.EncPath("Uploads")), sim.Fld(sim.FTransferSize, sim.U32(len(data)+200)))
	case "download":
		rep, err = t.request(5*time.Second, sim.TDownloadFile, sim.Fld(sim.FFileName, []byte("file.txt")))
	case "fupload":
		rep, err = t.request(5*time.Second, sim.TUploadFldr, sim.Fld(sim.FFileName, []byte("f"+name)), sim.Fld(sim.FFilePath, sim.EncPath("Uploads")), sim.Fld(sim.FTransferSize, sim.U32(1000)), sim.Fld(sim.FFolderItemCount, sim.U16(2)))
	case "fdownload":
		rep, err = t.request(5*time.Second, sim.TDownloadFldr, sim.Fld(sim.FFileName, []byte("dir")))
	}
	if err != nil || rep.Err != 0 {
		return
	}
	ref, _ := rep.Get(sim.FRefNum)
	if len(ref) != 4 {
		return
	}
	if p.Mut == "dup" {
		// the same preamble replayed on two concurrent transfer connections
		var wg sync.WaitGroup
		for k := 0; k < 2; k++ {
			wg.Add(1)
			go func() {
				defer wg.Done()
				y, err := dialFrom(src, tport)
				if err != nil {
					return
				}
				defer y.Close()
				st := preamble(ref, len(data)+200)
				if p.Sess == "upload" {
					st = append(st, ffo(name, data)...)
				}
				_, _ = y.Write(st)
				drain(y, 300*time.Millisecond)
			}()
		}
		wg.Wait()
		return
	}
	x, err := dialFrom(src, tport)
	if err != nil {
		return
	}
	defer x.Close()
	var stream []byte
	switch p.Sess {
	case "upload":
		stream = append(preamble(ref, len(data)+200), ffo(name, data)...)
	case "download":
		stream = preamble(ref, 0)
	case "fupload":
		item := func(isDir bool, path ...string) []byte {
			enc := []byte{}
			for _, s := range path {
				enc = append(enc, 0, 0, byte(len(s)))
				enc = append(enc, s...)
			}
			h := sim.U16(len(enc) + 4)
			if isDir {
				h = append(h, 0, 1)
			} else {
				h = append(h, 0, 0)
			}
			h = append(h, sim.U16(len(path))...)
			return append(h, enc...)
		}
		stream = preamble(ref, 1000)
		stream = append(stream, item(true, "sub")...)
		stream = append(stream, item(false, "sub", "x.txt")...)
		f := ffo("x.txt", data)
		stream = append(stream, sim.U32(len(f))...)
		stream = append(stream, f...)
	case "fdownload":
		stream = append(preamble(ref, 0), 0, 1, 0, 1, 0, 3, 0, 2, 0, 9, 0, 1, 0, 3)
	}
	// mutate the transfer stream: p.Frame selects a region, p.Mut the operation
	pos := []int{0, 4, 8, 16, 20, 40, 56, 60, 130, len(stream) - 1}[p.Frame%10]
	if pos >= len(stream) {
		pos = len(stream) - 1
	}
	if pos < 0 {
		pos = 0
	}
	switch p.Mut {
	case "trunc":
		stream = stream[:pos]
	case "size", "total", "datasz":
		v := []uint32{0, 1, 3, 0xffff, 0x10000, 0xfffff, 0x100000}[p.Val%7] // declared sizes stay <= 1 MiB
		put32(stream, pos, v)
	case "count", "flen", "shortid":
		put16(stream, pos, uint16(vals32[p.Val%len(vals32)]))
	case "garbage":
		g := make([]byte, 1+rng.Intn(300))
		rng.Read(g)
		stream = append(stream[:pos:pos], g...)
	case "badhs":
		copy(stream, "HTXX")
	}
	_, _ = x.Write(stream)
	drain(x, 200*time.Millisecond)
}

// ---- parent ---------------------------------------------------------------------------------------------------

func runParent(args []string) error {
	fs := flag.NewFlagSet("run", flag.ExitOnError)
	plansPath := fs.String("plans", "", "mutation plans (ndjson)")
	out := fs.String("out", "log.ndjson", "event log")
	fuzz := fs.Int("fuzz", 200, "additional random-fuzz connections")
	batch := fs.Int("batch", 150, "hostile connections per batch")
	burst := fs.Int("burst", 1500, "simultaneous first connections from new addresses (accept path)")
	seed := fs.Int64("seed", 1, "seed")
	self := fs.String("self", os.Args[0], "path of this binary")
	_ = fs.Parse(args)
	var plans []plan
	if *plansPath != "" {
		b, err := os.ReadFile(*plansPath)
		if err != nil {
			return err
		}
		for _, line := range bytes.Split(b, []byte("\n")) {
			if len(line) == 0 {
				continue
			}
			var p plan
			if err := json.Unmarshal(line, &p); err != nil {
				return err
			}
			plans = append(plans, p)
		}
	}
	rng := rand.New(rand.NewSource(*seed))
	muts := []string{"trunc", "total", "datasz", "count", "flen", "dropfield", "shortid", "garbage", "badhs", "size", "dup"}
	sess := []string{"ctl", "ctl", "adm", "adm", "scan", "lurker", "kick", "prelogin", "upload", "download", "fupload", "fdownload"}
	plans = append([]plan{{Sess: "nonreader", Mut: "none", Val: 0}, {Sess: "nonreader", Mut: "none", Val: 1}}, plans...)
	for i := 0; i < *fuzz; i++ {
		plans = append(plans, plan{Sess: sess[rng.Intn(len(sess))], Frame: 1 + rng.Intn(24), Mut: muts[rng.Intn(len(muts))], Val: rng.Intn(9)})
	}
	dir, err := os.MkdirTemp(sim.ScratchBase(), "contain-")
	if err != nil {
		return err
	}
	defer os.RemoveAll(dir)
	evPath := dir + "/events.ndjson"
	cmd := exec.Command(*self, "child", "-events", evPath)
	cmd.Env = append(os.Environ(), "VERIF_SCRATCH="+dir)
	stdout, _ := cmd.StdoutPipe()
	var stderr bytes.Buffer
	cmd.Stderr = &limitWriter{w: &stderr, max: 64 << 20}
	if err := cmd.Start(); err != nil {
		return err
	}
	exited := make(chan error, 1)
	var port, tport int
	portsCh := make(chan bool, 1)
	go func() {
		sc := bufio.NewScanner(stdout)
		sc.Buffer(make([]byte, 1<<20), 1<<24)
		var dbg *os.File
		if p := os.Getenv("VERIF_CHILD_STDOUT"); p != "" {
			dbg, _ = os.Create(p)
			defer dbg.Close()
		}
		for sc.Scan() {
			if dbg != nil {
				fmt.Fprintln(dbg, sc.Text())
			}
			if strings.HasPrefix(sc.Text(), "PORTS ") {
				fmt.Sscanf(sc.Text(), "PORTS %d %d", &port, &tport)
				portsCh <- true
			}
		}
	}()
	go func() { exited <- cmd.Wait() }()
	select {
	case <-portsCh:
	case err := <-exited:
		return fmt.Errorf("child exited before listening: %v\n%s", err, stderr.String())
	case <-time.After(30 * time.Second):
		_ = cmd.Process.Kill()
		return fmt.Errorf("child did not start listening")
	}
	var evs []map[string]any
	evs = append(evs, map[string]any{"op": "world", "run": 1, "plans": len(plans)})
	s1, err := loginTCP(net.IPv4(127, 0, 0, 2), port, "guest", "", "sentinel-1")
	if err != nil {
		_ = cmd.Process.Kill()
		return fmt.Errorf("sentinel 1: %w", err)
	}
	s2, err := loginTCP(net.IPv4(127, 0, 0, 3), port, "admin", "admin", "sentinel-2")
	if err != nil {
		_ = cmd.Process.Kill()
		return fmt.Errorf("sentinel 2: %w", err)
	}
	dead := false
	probe := func(tag string) {
		for i, s := range []*tcpClient{s1, s2} {
			t0 := time.Now()
			_, err := s.request(sim.Patience(10*time.Second), []int{sim.TGetUserNameList, sim.TGetMsgs}[i])
			if err != nil { // retried once
				_, err = s.request(sim.Patience(10*time.Second), sim.TKeepAlive)
			}
			s.inbox = nil
			evs = append(evs, map[string]any{"op": "probe", "run": 1, "tag": tag, "sentinel": i + 1, "ok": err == nil, "ms": time.Since(t0).Milliseconds()})
		}
		// the transfer port serves the well-behaved too: a sentinel downloads a small file through it (not at the very
		// end: the transfer handler keeps its counter up for three more seconds, which would spoil the final baseline)
		if tag == "quiescent" {
			return
		}
		t0 := time.Now()
		ok := false
		rep, err := s2.request(sim.Patience(10*time.Second), sim.TDownloadFile, sim.Fld(sim.FFileName, []byte("file.txt")))
		if err != nil { // retried once, like the control-port probes
			rep, err = s2.request(sim.Patience(10*time.Second), sim.TDownloadFile, sim.Fld(sim.FFileName, []byte("file.txt")))
		}
		if err == nil && rep.Err == 0 {
			if ref, _ := rep.Get(sim.FRefNum); len(ref) == 4 {
				if x, err := dialFrom(net.IPv4(127, 0, 0, 3), tport); err == nil {
					_, _ = x.Write(preamble(ref, 0))
					got := 0
					buf := make([]byte, 4096)
					deadline := time.Now().Add(sim.Patience(20 * time.Second))
					var all []byte
					for time.Now().Before(deadline) && !ok {
						_ = x.SetReadDeadline(time.Now().Add(200 * time.Millisecond))
						n, err := x.Read(buf)
						got += n
						all = append(all, buf[:n]...)
						if bytes.Contains(all, []byte("this is a file")) {
							ok = true // the data fork arrived
						}
						if err != nil {
							if ne, isNet := err.(net.Error); isNet && ne.Timeout() {
								continue
							}
							break
						}
					}
					x.Close()
				}
			}
		}
		s2.inbox = nil
		evs = append(evs, map[string]any{"op": "probe", "run": 1, "tag": tag + "/transfer", "sentinel": 3, "ok": ok, "ms": time.Since(t0).Milliseconds()})
	}
	childDead := func() bool {
		select {
		case err := <-exited:
			exited <- err
			return true
		default:
			return false
		}
	}
	probe("start")
	stillBusy := false
	hs := &hostileStats{}
	n := 1000
	for off := 0; off < len(plans) && !dead; off += *batch {
		end := off + *batch
		if end > len(plans) {
			end = len(plans)
		}
		var wg sync.WaitGroup
		for i := off; i < end; i++ {
			n++
			if lo, hi := debugRange(); i < lo || i >= hi {
				continue // VERIF_CONTAIN_RANGE=lo:hi (debugging aid): only these plans are fired, numbering unchanged
			}
			wg.Add(1)
			go func(p plan, n int) {
				defer wg.Done()
				hostile(p, n, port, tport, rand.New(rand.NewSource(*seed*100000+int64(n))), hs)
			}(plans[i], n)
		}
		wg.Wait()
		probe(fmt.Sprintf("batch-%d", off / *batch))
		dead = childDead()
	}
	// accept path: a burst of simultaneous first connections from new source addresses
	if !dead && *burst > 0 {
		var wg sync.WaitGroup
		for i := 0; i < *burst; i++ {
			wg.Add(1)
			go func(i int) {
				defer wg.Done()
				c, err := dialFrom(net.IPv4(127, 200+byte(i>>16), byte(i>>8), byte(i)), port)
				if err != nil {
					return
				}
				_, _ = c.Write(sim.HandshakeBytes[:6])
				time.Sleep(20 * time.Millisecond)
				c.Close()
			}(i)
		}
		wg.Wait()
		probe("burst")
		dead = childDead()
	}
	hs.mu.Lock()
	for _, c := range hs.held {
		c.Close()
	}
	hs.mu.Unlock()
	// quiescence: transfer handlers sleep 3 s before returning; delayed disconnects take up to 3 s
	if !dead {
		// wait until the server's event log has been silent for 3.5 s (bounded by 120 s)
		time.Sleep(1500 * time.Millisecond)
		lastSize, lastChange := int64(-1), time.Now()
		for t0 := time.Now(); time.Since(t0) < 120*time.Second; {
			if fi, err := os.Stat(evPath); err == nil && fi.Size() != lastSize {
				lastSize, lastChange = fi.Size(), time.Now()
			}
			if time.Since(lastChange) > 3500*time.Millisecond {
				break
			}
			time.Sleep(100 * time.Millisecond)
		}
		// "once the hostile connections are gone ... the user list is back": poll a sentinel's user list until it
		// shows the sentinels only (a leak never converges; patience is bounded)
		t0 := time.Now()
		// patience is bounded by PROGRESS, not by a fixed time: as long as the number of registered users keeps going
		// down the server is working off its backlog (e.g. thousands of news posts, each rewriting the news file);
		// a leak shows as no progress for 45 s (overall cap 20 min)
		best, lastProgress := 1<<30, time.Now()
		lastCPU, lastCPUAt, lastEv := childCPUTicks(cmd.Process.Pid), time.Now(), int64(-1)
		for time.Since(t0) < 20*time.Minute && time.Since(lastProgress) < 45*time.Second {
			// a server that is burning CPU or still recording registry / counter events is working off its backlog
			// (machine load slows that down arbitrarily); a leak is a server that has gone quiet with users left over
			// (busy = more than a tenth of a core over the last five seconds; this loop's own polling costs far less)
			if dt := time.Since(lastCPUAt); dt >= 5*time.Second {
				cpu := childCPUTicks(cmd.Process.Pid)
				if float64(cpu-lastCPU)/dt.Seconds() >= 10 {
					lastProgress = time.Now()
				}
				lastCPU, lastCPUAt = cpu, time.Now()
			}
			if fi, err := os.Stat(evPath); err == nil && fi.Size() != lastEv {
				lastEv, lastProgress = fi.Size(), time.Now()
			}
			rep, err := s2.request(10*time.Second, sim.TGetUserNameList)
			if err != nil {
				if childDead() {
					break
				}
				time.Sleep(500 * time.Millisecond)
				continue
			}
			n := len(rep.GetAll(sim.FUsernameWithInfo))
			if n < best {
				best, lastProgress = n, time.Now()
			}
			if n <= 2 {
				// the registry is back; ask the server for its counters as well
				_ = os.Remove(evPath + ".snap")
				_ = cmd.Process.Signal(syscall.SIGUSR1)
				var snap map[string]any
				for k := 0; k < 50 && snap == nil; k++ {
					time.Sleep(20 * time.Millisecond)
					if b, err := os.ReadFile(evPath + ".snap"); err == nil {
						_ = json.Unmarshal(b, &snap)
					}
				}
				if snap != nil && snap["connected"] == float64(2) && snap["downloads"] == float64(0) && snap["uploads"] == float64(0) {
					break
				}
			}
			time.Sleep(500 * time.Millisecond)
		}
		// the overall cap was reached while the server was still making progress: no verdict on "back to baseline"
		stillBusy = time.Since(t0) >= 20*time.Minute && time.Since(lastProgress) < 45*time.Second
		evs = append(evs, map[string]any{"op": "settled", "run": 1, "ms": time.Since(t0).Milliseconds()})
		probe("quiescent")
		rep, err := s2.request(10*time.Second, sim.TGetUserNameList)
		names := []string{}
		if err == nil {
			for _, u := range rep.GetAll(sim.FUsernameWithInfo) {
				if len(u) >= 8 {
					names = append(names, string(u[8:]))
				}
			}
		}
		evs = append(evs, map[string]any{"op": "userlist", "run": 1, "ok": err == nil, "names": names, "busy": stillBusy})
		if os.Getenv("VERIF_DEBUG_DUMP") != "" {
			_ = cmd.Process.Signal(syscall.SIGQUIT)
		} else {
			_ = cmd.Process.Signal(syscall.SIGTERM)
		}
	}
	var exitErr error
	harnessKilled := false
	select {
	case exitErr = <-exited:
	case <-time.After(sim.Patience(60 * time.Second)):
		// the server did not get through its shutdown bookkeeping in time (a loaded machine): ended by the harness,
		// which says nothing about the property - the exit status is then not an observation
		_ = cmd.Process.Kill()
		harnessKilled = true
		<-exited
	}
	code := 0
	if exitErr != nil {
		code = 1
		if ee, ok := exitErr.(*exec.ExitError); ok {
			code = ee.ExitCode()
		}
	}
	if p := os.Getenv("VERIF_DEBUG_DUMP"); p != "" {
		_ = os.WriteFile(p, stderr.Bytes(), 0644)
	}
	fatal := ""
	for _, line := range strings.Split(stderr.String(), "\n") {
		if strings.HasPrefix(line, "fatal error:") || strings.HasPrefix(line, "panic:") {
			fatal = line
			break
		}
	}
	// merge the child's events (already totally ordered by its own sequence number)
	if b, err := os.ReadFile(evPath); err == nil {
		for _, line := range bytes.Split(b, []byte("\n")) {
			if len(line) == 0 {
				continue
			}
			var m map[string]any
			if json.Unmarshal(line, &m) == nil {
				m["run"] = 1
				if m["op"] == "Final" {
					m["busy"] = stillBusy
				}
				if m["op"] == "Add" {
					a, _ := m["addr"].(string)
					m["sentinel"] = strings.HasPrefix(a, "127.0.0.2:") || strings.HasPrefix(a, "127.0.0.3:")
				}
				evs = append(evs, m)
			}
		}
	}
	if harnessKilled {
		code, fatal = 0, ""
	}
	evs = append(evs, map[string]any{"op": "exit", "run": 1, "code": code, "fatal": fatal, "hostile": hs.started, "dialFailed": hs.failedDial, "harnessKilled": harnessKilled})
	lg, err := sim.NewLog(*out)
	if err != nil {
		return err
	}
	lg.EmitAll(evs)
	return lg.Close()
}

type limitWriter struct {
	w   io.Writer
	max int
	n   int
}

func (l *limitWriter) Write(p []byte) (int, error) {
	if l.n < l.max {
		k := len(p)
		if l.n+k > l.max {
			k = l.max - l.n
		}
		l.w.Write(p[:k])
		l.n += k
	}
	return len(p), nil
}

// childCPUTicks: user + system CPU time of the process so far, in clock ticks (0 if unreadable).
func childCPUTicks(pid int) int64 {
	b, err := os.ReadFile(fmt.Sprintf("/proc/%d/stat", pid))
	if err != nil {
		return 0
	}
	i := bytes.LastIndexByte(b, ')')
	if i < 0 {
		return 0
	}
	f := strings.Fields(string(b[i+1:]))
	if len(f) < 13 {
		return 0
	}
	var u, sy int64
	fmt.Sscan(f[11], &u)
	fmt.Sscan(f[12], &sy)
	return u + sy
}

func debugRange() (int, int) {
	lo, hi := 0, 1<<30
	if v := os.Getenv("VERIF_CONTAIN_RANGE"); v != "" {
		fmt.Sscanf(v, "%d:%d", &lo, &hi)
	}
	return lo, hi
}
