package news

import (
	"bytes"
	"math/rand"
)

// The seeded generator: it keeps the structure of a TLC behaviour (which items are created, posted to, deleted,
// reloaded) and replaces the data - the two item names, the client's user names, every title and every body - by
// drawn ones: titles and user names up to 255 bytes, bodies up to 63 KiB (a post request must fit the 65 536-byte
// transaction the connection scanner accepts), bytes from the whole range including CR, LF, TAB, NUL, high
// bytes and YAML punctuation.  It holds no expectation about the outcome.

const maxBody = 63 * 1024

var letters = []byte("abcdefghijklmnopqrstuvwxyzABCDEFGHIJKLMNOPQRSTUVWXYZ0123456789")
var palette = []byte{'a', 'Z', ' ', ' ', '\r', '\n', '\t', 0, 0x80, 0xff, 0xe9, ':', '#', '-', '"', '\'', '{', '}', '[', '!', '&', '*', '|', '>', '%', '@', '\\', '~', ',', '?', '=', 0x7f, 0x1b}

func word(r *rand.Rand, min, max int) []byte {
	n := min + r.Intn(max-min+1)
	b := make([]byte, n)
	for i := range b {
		b[i] = letters[r.Intn(len(letters))]
	}
	return b
}

// runs: k runs of palette bytes, total length at most max.
func runs(r *rand.Rand, k, maxRun, max int, pal []byte) []byte {
	var b []byte
	for i := 0; i < k && len(b) < max; i++ {
		c := pal[r.Intn(len(pal))]
		n := 1 + r.Intn(maxRun)
		if len(b)+n > max {
			n = max - len(b)
		}
		b = append(b, bytes.Repeat([]byte{c}, n)...)
	}
	return b
}

func clip(b []byte, max int) []byte {
	if len(b) > max {
		return b[:max]
	}
	return b
}

// text draws one text of at most max bytes.  class: 0 short word, 1 as long as allowed, 2 palette runs, 3 lines
// separated by LF starting with an LF, 4 lines starting with a TAB, 5 empty, 6 lines separated by CR, 7 words and
// spaces (long enough to be folded by a YAML emitter), 8 trailing line feeds, 9 one byte repeated.
func text(r *rand.Rand, class, max int) []byte {
	switch class {
	case 0:
		return clip(word(r, 1, 12), max)
	case 1:
		b := bytes.Repeat([]byte{letters[r.Intn(len(letters))]}, max)
		if r.Intn(2) == 0 && max > 8 {
			copy(b[max/2:], bytes.Repeat([]byte{' '}, 1+r.Intn(3)))
		}
		return b
	case 2:
		return runs(r, 1+r.Intn(6), 5, max, palette)
	case 3:
		b := append([]byte{'\n'}, word(r, 0, 6)...)
		for i := r.Intn(3); i > 0; i-- {
			b = append(append(b, '\n'), word(r, 0, 8)...)
		}
		return clip(b, max)
	case 4:
		b := []byte{'\t'}
		if r.Intn(2) == 0 {
			b = append(b, word(r, 1, 5)...)
		}
		b = append(append(b, '\n'), word(r, 1, 8)...)
		return clip(b, max)
	case 5:
		return nil
	case 6:
		b := word(r, 1, 20)
		for i := 1 + r.Intn(4); i > 0; i-- {
			b = append(append(b, '\r'), word(r, 0, 30)...)
		}
		return clip(b, max)
	case 7:
		var b []byte
		for len(b) < max-12 && len(b) < 40+r.Intn(200) {
			b = append(append(b, word(r, 1, 11)...), ' ')
		}
		return clip(append(b, word(r, 1, 5)...), max)
	case 8:
		return clip(append(word(r, 1, 9), bytes.Repeat([]byte{'\n'}, 1+r.Intn(2))...), max)
	default:
		return bytes.Repeat([]byte{palette[r.Intn(len(palette))]}, 1+r.Intn(max))
	}
}

func pick(r *rand.Rand, classes ...int) int { return classes[r.Intn(len(classes))] }

func bigBody(r *rand.Rand) []byte {
	n := []int{511, 512, 513, 4096, 32768, 32769, 65535 - 2048, maxBody}[r.Intn(8)]
	if r.Intn(3) == 0 {
		n = 1 + r.Intn(maxBody)
	}
	switch r.Intn(3) {
	case 0:
		return bytes.Repeat([]byte{letters[r.Intn(len(letters))]}, n)
	case 1: // lines of one letter separated by CR
		b := bytes.Repeat([]byte{letters[r.Intn(len(letters))]}, n)
		for i := n / 3; i < n; i += 1 + n/3 {
			b[i] = '\r'
		}
		return b
	default:
		b := bytes.Repeat([]byte{palette[r.Intn(len(palette))]}, n)
		b[0] = 'x'
		return b
	}
}

// itemName draws a news item name: never starting with LF or TAB (see the findings about the YAML file; item names
// are affected in the same way as texts, the generator keeps that class to titles and bodies), 1..255 bytes, rarely
// empty.
func itemName(r *rand.Rand, mode int) []byte {
	if mode == 0 {
		return word(r, 1, 8)
	}
	switch r.Intn(8) {
	case 0:
		return text(r, 1, 255)
	case 1:
		b := runs(r, 1+r.Intn(4), 4, 40, palette)
		for len(b) > 0 && (b[0] == '\n' || b[0] == '\t') {
			b = b[1:]
		}
		return b
	case 2:
		return text(r, 7, 60)
	case 3:
		return append(word(r, 1, 4), 0xe9, 0x80, ':', ' ')
	default:
		return word(r, 1, 14)
	}
}

func hasLetter(b []byte) bool {
	for _, c := range b {
		if c >= 'a' && c <= 'z' || c >= 'A' && c <= 'Z' {
			return true
		}
	}
	return false
}

// nameFamily draws three distinct, related item names: 0 unrelated, 1 the same word in three letter cases, 2 a word,
// the word plus one byte, the word minus its last byte (prefixes), 3 a word followed by different Mac-Roman high bytes
// (no valid UTF-8: all "the same" to a decoder that replaces them), 4 names equal under Unicode simple case folding
// (k / K / Kelvin sign), 5 differing only in surrounding or inner blanks.
func nameFamily(r *rand.Rand, mode int) [][]byte {
	for {
		var out [][]byte
		w := word(r, 2, 10)
		switch r.Intn(6) {
		case 0:
			out = [][]byte{itemName(r, mode), itemName(r, mode), itemName(r, mode)}
		case 1:
			for !hasLetter(w) {
				w = word(r, 2, 10)
			}
			lo, up := bytes.ToLower(w), bytes.ToUpper(w)
			ti := append([]byte{up[0]}, lo[1:]...)
			out = [][]byte{ti, lo, up}
			if bytes.Equal(ti, lo) || bytes.Equal(ti, up) {
				out[0] = append(append([]byte{lo[0]}, up[1:len(up)-1]...), lo[len(lo)-1])
			}
		case 2:
			out = [][]byte{w, append(append([]byte(nil), w...), letters[r.Intn(len(letters))]), w[:len(w)-1]}
		case 3:
			out = [][]byte{append(append([]byte(nil), w...), 0x8a), append(append([]byte(nil), w...), 0x80), append(append([]byte(nil), w...), 0xe9)}
		case 4:
			out = [][]byte{append(append([]byte(nil), w...), 'k'), append(append([]byte(nil), w...), 'K'), append(append([]byte(nil), w...), 0xe2, 0x84, 0xaa)}
		default:
			out = [][]byte{w, append(append([]byte(nil), w...), ' '), append([]byte{' '}, w...)}
		}
		if len(out[0]) > 0 && len(out[1]) > 0 && len(out[2]) > 0 && !bytes.Equal(out[0], out[1]) && !bytes.Equal(out[0], out[2]) && !bytes.Equal(out[1], out[2]) {
			return out
		}
	}
}

// decorate rewrites the data of a script in place.  idx selects the flavour so that every flavour occurs in every
// batch: 0 untouched, 1 long titles and user names (article-list entries longer than 512 bytes), 2 palette texts,
// 3 line-structured texts, 4 big bodies, 5 everything mixed.
func decorate(s *script, r *rand.Rand, idx int) {
	// every second script restarts the store (reload) right after its first item was created, while that item is
	// still empty, so that posting to / creating below an item that was saved empty is exercised in every batch
	if idx%2 == 1 {
		for i, st := range s.Steps {
			if st["op"] == "mkcat" || st["op"] == "mkbundle" {
				rest := append([]map[string]any{{"op": "reload"}}, s.Steps[i+1:]...)
				s.Steps = append(s.Steps[:i+1:i+1], rest...)
				break
			}
		}
	}
	mode := idx % 6
	if mode == 0 {
		return
	}
	names := map[string][]byte{}
	used := map[string]bool{}
	// the three names of the TLC scripts ("Cat", "cat", "Ca") become a family of related names: an implementation
	// that compares names loosely (case folding, prefixes, byte classes) confuses exactly such siblings
	// Deep paths (one script in eight): everything the script does happens below a chain of 15 nested bundles with
	// 255-byte names (path data 3870 bytes), and the three item names get lengths that put the 4096th byte of the path
	// data - the size of the buffer the path decoder starts with - at chosen places of the next item: its header split
	// after 2, 1 or 0 bytes (names of 221, 222, 223 bytes), or in the middle of a name (230 bytes).  Such paths name
	// existing items, created level by level through the protocol like everything else.
	deep := idx%8 == 5
	family := nameFamily(r, mode)
	var chain [][]byte
	if deep {
		for i := 0; i < 15; i++ {
			chain = append(chain, bytes.Repeat([]byte{letters[(idx+i)%len(letters)]}, 255))
		}
		lens := [][]int{{221, 222, 223}, {223, 221, 222}, {230, 221, 100}, {222, 223, 221}}[(idx/8)%4]
		for i := range family {
			family[i] = bytes.Repeat([]byte{letters[(idx+20+i)%len(letters)]}, lens[i])
		}
	}
	for i, v := range family {
		k := []string{"Cat", "cat", "Ca"}[i]
		names[k] = v
		used[string(v)] = true
	}
	rename := func(n []byte) []byte {
		k := string(n)
		if v, ok := names[k]; ok {
			return v
		}
		for {
			v := itemName(r, mode)
			if !used[string(v)] {
				used[string(v)] = true
				names[k] = v
				return v
			}
		}
	}
	title := func() []byte {
		switch mode {
		case 1:
			return text(r, pick(r, 1, 1, 7, 0), 255)
		case 2:
			return text(r, pick(r, 2, 2, 9, 5), 255)
		case 3:
			return text(r, pick(r, 3, 4, 6, 8, 7), 255)
		case 4:
			return text(r, pick(r, 0, 7), 255)
		}
		return text(r, r.Intn(10), 255)
	}
	user := func() []byte {
		switch mode {
		case 1:
			return text(r, pick(r, 1, 1, 7), 255)
		case 2:
			return text(r, pick(r, 2, 0, 9), 255)
		}
		return text(r, pick(r, 0, 0, 6, 7, 1, 2), 255)
	}
	body := func() []byte {
		switch mode {
		case 1:
			return text(r, pick(r, 0, 6), 400)
		case 2:
			return text(r, pick(r, 2, 2, 9, 5), 3000)
		case 3:
			return text(r, pick(r, 3, 3, 4, 6, 8, 7), 2000)
		case 4:
			return bigBody(r)
		}
		if r.Intn(6) == 0 {
			return bigBody(r)
		}
		return text(r, r.Intn(10), 5000)
	}
	if deep {
		// the post request (path of up to 4.4 KiB + title + body) must still fit the 65 536-byte transaction
		inner := body
		body = func() []byte { return clip(inner(), maxBody-6*1024) }
	}
	toAny := func(b []byte) any {
		out := []any{}
		for _, p := range canon(b) {
			out = append(out, []any{float64(p[0]), float64(p[1])})
		}
		return out
	}
	mapPath := func(v any) any {
		out := []any{}
		for _, n := range chain {
			out = append(out, toAny(n))
		}
		for _, n := range pathOf(v) {
			out = append(out, toAny(rename(n)))
		}
		return out
	}
	s.World.User = toAny(user())
	for _, st := range s.Steps {
		if v, ok := st["path"]; ok {
			st["path"] = mapPath(v)
		}
		switch st["op"] {
		case "mkbundle", "mkcat":
			st["name"] = toAny(rename(expand(st["name"])))
		case "post":
			st["title"] = toAny(title())
			st["body"] = toAny(body())
			delete(st, "date")
		case "setname":
			st["name"] = toAny(user())
		}
	}
	// a thread in a fresh category - an article, a reply, an unrelated later article, its reply, a reply to the reply -
	// and a delete-article with the "delete child articles" field absent / 0 / 1 on an article with or without replies
	if !deep && r.Intn(3) == 0 {
		cat := mapPath([]any{toAny([]byte("\x00thread"))})
		post := func(parent int) map[string]any {
			return map[string]any{"op": "post", "path": cat, "parent": float64(parent), "title": toAny(title()), "body": toAny(body())}
		}
		names := cat.([]any)
		tail := []map[string]any{{"op": "mkcat", "path": names[:len(names)-1], "name": names[len(names)-1]},
			post(0), post(1), post(0), post(3), post(2)}
		tail = append(tail, map[string]any{"op": "delart", "path": cat, "id": float64([]int{1, 1, 3, 2, 4, 5}[r.Intn(6)]), "rec": float64(r.Intn(3) - 1)})
		if r.Intn(2) == 0 {
			tail = append(tail, post(0))
		}
		tail = append(tail, map[string]any{"op": "reload"})
		s.Steps = append(s.Steps, tail...)
	}
	// a request about an article in a category that does not exist (its parent does)
	if !deep && r.Intn(5) == 0 {
		ghost := rename([]byte("\x00ghost"))
		s.Steps = append(s.Steps, map[string]any{"op": "delart", "path": mapPath([]any{toAny(ghost)}), "id": float64(1 + r.Intn(2)), "rec": float64(-1)})
	}
	if deep {
		var pre []map[string]any
		for i, n := range chain {
			par := []any{}
			for _, m := range chain[:i] {
				par = append(par, toAny(m))
			}
			pre = append(pre, map[string]any{"op": "mkbundle", "path": par, "name": toAny(n)})
		}
		s.Steps = append(pre, s.Steps...)
	}
}
