// Package persist is the driver/observer of property C20 (a crash never leaves persistent state torn).
//
// It contains no oracle.  Its parts:
//   - script.go      update scripts: symbolic (as TLC emits them from MC_Persist) and concrete (what persistd runs)
//   - stores.go      seeding a config directory, opening the four real stores, performing one update on them,
//     canonical projections of what the real constructors loaded
//   - daemon.go      vh-persistd: performs a script on a config directory, one OS thread, markers around updates
//   - strace.go      parser of `strace -f -y` logs into syscall events restricted to the config directory
//   - vfs.go         independent re-executor of open/write/rename/link/unlink/truncate semantics
//   - materialise.go every crash point of every update -> directory -> real constructors -> ndjson event log
//   - kill.go        cross-check of the materialisation with real SIGKILLs injected by strace
//
// The verdict is taken by spec/Trace_Persist.tla from the recorded observations.
package persist

import (
	"bufio"
	"encoding/json"
	"fmt"
	"math/rand"
	"os"
	"sort"
	"strings"
	"time"
)

// ---- symbolic scripts (TLA+ records of Persist.tla, see Persist!Updates) ---------------------------------------

// SymUpdate is one update as the specification names it.  Small integers stand for payloads (p: post, r: account
// or article record, t: ban expiry) which Expand turns into concrete bytes.
type SymUpdate struct {
	Kind   string   `json:"kind"`
	P      int      `json:"p,omitempty"`
	IP     string   `json:"ip,omitempty"`
	T      int      `json:"t,omitempty"`
	Login  string   `json:"login,omitempty"`
	To     string   `json:"to,omitempty"`
	R      int      `json:"r,omitempty"`
	Path   []string `json:"path,omitempty"`
	Name   string   `json:"name,omitempty"`
	Type   int      `json:"type,omitempty"`
	Parent int      `json:"parent,omitempty"`
	ID     int      `json:"id,omitempty"`
}

// SymWorld is the initial logical state of a script.
type SymWorld struct {
	Board    []int    `json:"board"`    // post numbers, newest first (may be empty: empty board file)
	BansFile bool     `json:"bansfile"` // Banlist.yaml exists initially
	Bans     [][2]any `json:"bans"`     // [ip, t]
	Accts    [][2]any `json:"accts"`    // [login, r]
	Cats     [][2]any `json:"cats"`     // [path, type]
	Arts     [][3]any `json:"arts"`     // [path, id, r]
}

type SymScript struct {
	World SymWorld    `json:"world"`
	Steps []SymUpdate `json:"steps"`
	Src   string      `json:"src,omitempty"` // "tlc" | "rand"
}

// ---- concrete scripts -------------------------------------------------------------------------------------------

type Acct struct {
	Login    string `json:"login"`
	Name     string `json:"name"`
	Password string `json:"password"`
	Access   []int  `json:"access"` // 8 bytes
}

type Art struct {
	Title  string `json:"title"`
	Poster string `json:"poster"`
	Data   string `json:"data"`
	Date   []int  `json:"date"` // 8 bytes
}

type Update struct {
	Kind     string   `json:"kind"`
	Store    string   `json:"store"`
	Text     string   `json:"text,omitempty"`
	IP       string   `json:"ip,omitempty"`
	Until    string   `json:"until,omitempty"` // RFC3339, "" = permanent
	Login    string   `json:"login,omitempty"`
	NewLogin string   `json:"newlogin,omitempty"`
	Acct     *Acct    `json:"acct,omitempty"`
	Path     []string `json:"path,omitempty"`
	Name     string   `json:"name,omitempty"`
	Type     int      `json:"type,omitempty"`
	Parent   int      `json:"parent,omitempty"`
	Art      *Art     `json:"art,omitempty"`
	ID       int      `json:"id,omitempty"`
}

type InitArt struct {
	Path   []string `json:"path"`
	ID     int      `json:"id"`
	Parent int      `json:"parent"`
	Art    Art      `json:"art"`
}

type InitCat struct {
	Path []string `json:"path"`
	Type int      `json:"type"`
}

type Init struct {
	Board    string            `json:"board"`
	BansFile bool              `json:"bansfile"`
	Bans     map[string]string `json:"bans"` // ip -> until ("" = permanent)
	Accounts []Acct            `json:"accounts"`
	Cats     []InitCat         `json:"cats"`
	Arts     []InitArt         `json:"arts"`
}

type Script struct {
	Run     int       `json:"run"`
	Src     string    `json:"src"`
	Init    Init      `json:"init"`
	Updates []Update  `json:"updates"`
	Sym     SymScript `json:"sym"`
}

func StoreOf(kind string) string {
	switch {
	case strings.HasPrefix(kind, "board_"):
		return "board"
	case strings.HasPrefix(kind, "news_"):
		return "news"
	case strings.HasPrefix(kind, "acct_"):
		return "accts"
	case strings.HasPrefix(kind, "ban_"):
		return "bans"
	}
	return "?"
}

// ---- expansion of symbolic payloads -----------------------------------------------------------------------------

type expander struct {
	seed int64
	run  int
	big  bool
}

func (x expander) rng(tag string, n int) *rand.Rand {
	h := int64(1469598103934665603)
	for _, c := range []byte(fmt.Sprintf("%s/%d/%d/%d", tag, x.seed, x.run, n)) {
		h = (h ^ int64(c)) * 1099511628211
	}
	return rand.New(rand.NewSource(h))
}

const fillerAlphabet = "abcdefghijklmnopqrstuvwxyz ABCDEFGHIJKLMNOPQRSTUVWXYZ0123456789.,;-"

func filler(r *rand.Rand, max int) string {
	n := r.Intn(max + 1)
	b := make([]byte, n)
	for i := range b {
		b[i] = fillerAlphabet[r.Intn(len(fillerAlphabet))]
	}
	return strings.TrimSpace(string(b))
}

func (x expander) maxFill() int {
	if x.big {
		return 3000
	}
	return 120
}

// Post texts are self-delimiting ("[[run.p]] ... \r") so that a loaded board can be cut back into posts.
func (x expander) post(p int) string {
	return fmt.Sprintf("[[%d.%d]] %s\r", x.run, p, filler(x.rng("post", p), x.maxFill()))
}

func (x expander) until(t int) string {
	if t == 0 {
		return ""
	}
	return time.Date(2031+t%7, time.Month(1+t%12), 1+t%28, t%24, (t*7)%60, 0, 0, time.UTC).Format(time.RFC3339)
}

func (x expander) acct(login string, r int) Acct {
	g := x.rng("acct", r)
	acc := make([]int, 8)
	for i := 0; i <= 40; i++ {
		if i == 19 {
			continue
		}
		if g.Intn(2) == 1 {
			acc[i/8] |= 1 << uint(7-i%8)
		}
	}
	return Acct{Login: login, Name: fmt.Sprintf("N%d %s", r, filler(g, 24)),
		Password: fmt.Sprintf("$2a$04$%022d%s", r, strings.Repeat("h", 31)), Access: acc}
}

func (x expander) art(r int) Art {
	g := x.rng("art", r)
	date := make([]int, 8)
	date[0], date[1] = 7, 0xe8
	date[7] = r % 256
	return Art{Title: fmt.Sprintf("T%d %s", r, filler(g, 16)), Poster: fmt.Sprintf("poster%d", r%3),
		Data: fmt.Sprintf("D%d %s", r, filler(g, x.maxFill())), Date: date}
}

func anyPath(v any) []string {
	out := []string{}
	switch a := v.(type) {
	case []any:
		for _, e := range a {
			out = append(out, fmt.Sprint(e))
		}
	case []string:
		out = append(out, a...)
	}
	return out
}

func anyInt(v any) int {
	switch n := v.(type) {
	case float64:
		return int(n)
	case int:
		return n
	}
	return 0
}

// Expand turns a symbolic script into the concrete one performed by vh-persistd.
func Expand(sym SymScript, run int, seed int64, big bool) Script {
	x := expander{seed: seed, run: run, big: big}
	sc := Script{Run: run, Src: sym.Src, Sym: sym}
	// initial state
	for i := range sym.World.Board {
		sc.Init.Board += x.post(sym.World.Board[i])
	}
	sc.Init.BansFile = sym.World.BansFile
	sc.Init.Bans = map[string]string{}
	for _, b := range sym.World.Bans {
		sc.Init.Bans[fmt.Sprint(b[0])] = x.until(anyInt(b[1]))
	}
	for _, a := range sym.World.Accts {
		sc.Init.Accounts = append(sc.Init.Accounts, x.acct(fmt.Sprint(a[0]), anyInt(a[1])))
	}
	for _, c := range sym.World.Cats {
		sc.Init.Cats = append(sc.Init.Cats, InitCat{Path: anyPath(c[0]), Type: anyInt(c[1])})
	}
	sort.Slice(sc.Init.Cats, func(i, j int) bool { return len(sc.Init.Cats[i].Path) < len(sc.Init.Cats[j].Path) })
	for _, a := range sym.World.Arts {
		sc.Init.Arts = append(sc.Init.Arts, InitArt{Path: anyPath(a[0]), ID: anyInt(a[1]), Art: x.art(anyInt(a[2]))})
	}
	for _, s := range sym.Steps {
		u := Update{Kind: s.Kind, Store: StoreOf(s.Kind)}
		switch s.Kind {
		case "board_post":
			u.Text = x.post(s.P)
		case "ban_add":
			u.IP, u.Until = s.IP, x.until(s.T)
		case "acct_create", "acct_update":
			a := x.acct(s.Login, s.R)
			u.Login, u.NewLogin, u.Acct = s.Login, s.Login, &a
		case "acct_rename":
			a := x.acct(s.To, s.R)
			u.Login, u.NewLogin, u.Acct = s.Login, s.To, &a
		case "acct_delete":
			u.Login = s.Login
		case "news_cat":
			u.Path, u.Name, u.Type = append([]string{}, s.Path...), s.Name, s.Type
		case "news_post":
			a := x.art(s.R)
			u.Path, u.Parent, u.Art = append([]string{}, s.Path...), s.Parent, &a
		case "news_delart":
			u.Path, u.ID = append([]string{}, s.Path...), s.ID
		case "news_delitem":
			u.Path = append([]string{}, s.Path...)
		}
		sc.Updates = append(sc.Updates, u)
	}
	return sc
}

// ---- seeded random symbolic scripts (bigger universes than the TLC instance) -----------------------------------

type genState struct {
	accts map[string]bool
	cats  map[string]int         // joined path -> type
	arts  map[string]map[int]int // joined category path -> id -> parent
	n     int
}

func joinPath(p []string) string { return strings.Join(p, "\x00") }

func splitPath(s string) []string {
	if s == "" {
		return []string{}
	}
	return strings.Split(s, "\x00")
}

// RandomSym draws one symbolic script of n updates.  It only keeps track of what exists so that every update is one
// the request handlers could issue (no posting into a missing category, no deleting the last account).
func RandomSym(r *rand.Rand, n int) SymScript {
	logins := []string{"alice", "bob", "carol", "dave", "erin", "frank"}
	ips := []string{"10.0.0.1", "10.0.0.2", "192.168.7.77", "172.16.5.4", "8.8.8.8"}
	names := []string{"General", "Dev", "Off-Topic", "Archive"}
	st := genState{accts: map[string]bool{}, cats: map[string]int{}, arts: map[string]map[int]int{}, n: 100}
	w := SymWorld{BansFile: r.Intn(2) == 1}
	for i := 0; i < r.Intn(3); i++ {
		w.Board = append(w.Board, 900+i)
	}
	if w.BansFile {
		for i := 0; i < 1+r.Intn(2); i++ {
			w.Bans = append(w.Bans, [2]any{ips[i], r.Intn(3)})
		}
	}
	for i := 0; i < 1+r.Intn(3); i++ {
		w.Accts = append(w.Accts, [2]any{logins[i], 800 + i})
		st.accts[logins[i]] = true
	}
	if r.Intn(2) == 1 {
		w.Cats = append(w.Cats, [2]any{[]string{"General"}, 3})
		st.cats[joinPath([]string{"General"})] = 3
		st.arts[joinPath([]string{"General"})] = map[int]int{1: 0}
		w.Arts = append(w.Arts, [3]any{[]string{"General"}, 1, 700})
	}
	sc := SymScript{World: w, Src: "rand"}
	fresh := func() int { st.n++; return st.n }
	have := func() []string {
		var o []string
		for _, l := range logins {
			if st.accts[l] {
				o = append(o, l)
			}
		}
		return o
	}
	missing := func() []string {
		var o []string
		for _, l := range logins {
			if !st.accts[l] {
				o = append(o, l)
			}
		}
		return o
	}
	catKeys := func(t int) []string {
		var o []string
		for k, v := range st.cats {
			if t == 0 || v == t {
				o = append(o, k)
			}
		}
		sort.Strings(o)
		return o
	}
	for len(sc.Steps) < n {
		switch r.Intn(10) {
		case 0, 1:
			sc.Steps = append(sc.Steps, SymUpdate{Kind: "board_post", P: fresh()})
		case 2:
			sc.Steps = append(sc.Steps, SymUpdate{Kind: "ban_add", IP: ips[r.Intn(len(ips))], T: r.Intn(4)})
		case 3:
			if m := missing(); len(m) > 0 {
				l := m[r.Intn(len(m))]
				st.accts[l] = true
				sc.Steps = append(sc.Steps, SymUpdate{Kind: "acct_create", Login: l, R: fresh()})
			}
		case 4:
			h := have()
			sc.Steps = append(sc.Steps, SymUpdate{Kind: "acct_update", Login: h[r.Intn(len(h))], R: fresh()})
		case 5:
			h, m := have(), missing()
			if len(m) > 0 {
				l, t := h[r.Intn(len(h))], m[r.Intn(len(m))]
				delete(st.accts, l)
				st.accts[t] = true
				sc.Steps = append(sc.Steps, SymUpdate{Kind: "acct_rename", Login: l, To: t, R: fresh()})
			}
		case 6:
			if h := have(); len(h) > 1 {
				l := h[r.Intn(len(h))]
				delete(st.accts, l)
				sc.Steps = append(sc.Steps, SymUpdate{Kind: "acct_delete", Login: l})
			}
		case 7:
			// create a bundle (2) or category (3) at the top level or inside a bundle
			parents := append([]string{""}, catKeys(2)...)
			p := splitPath(parents[r.Intn(len(parents))])
			name := names[r.Intn(len(names))]
			full := joinPath(append(append([]string{}, p...), name))
			if _, dup := st.cats[full]; dup || len(p) >= 2 {
				continue
			}
			t := 2 + r.Intn(2)
			st.cats[full] = t
			if t == 3 {
				st.arts[full] = map[int]int{}
			}
			sc.Steps = append(sc.Steps, SymUpdate{Kind: "news_cat", Path: p, Name: name, Type: t})
		case 8:
			if ck := catKeys(3); len(ck) > 0 {
				k := ck[r.Intn(len(ck))]
				max, ids := 0, []int{0}
				for id := range st.arts[k] {
					ids = append(ids, id)
					if id > max {
						max = id
					}
				}
				sort.Ints(ids)
				parent := ids[r.Intn(len(ids))]
				st.arts[k][max+1] = parent
				sc.Steps = append(sc.Steps, SymUpdate{Kind: "news_post", Path: splitPath(k), Parent: parent, R: fresh()})
			}
		case 9:
			ck := catKeys(0)
			if len(ck) == 0 {
				continue
			}
			k := ck[r.Intn(len(ck))]
			if ids := st.arts[k]; len(ids) > 0 && r.Intn(3) > 0 {
				var l []int
				for id := range ids {
					l = append(l, id)
				}
				sort.Ints(l)
				id := l[r.Intn(len(l))]
				// deleting an article that is some other article's parent is left to the handlers; the store allows it
				delete(ids, id)
				sc.Steps = append(sc.Steps, SymUpdate{Kind: "news_delart", Path: splitPath(k), ID: id})
			} else if r.Intn(2) == 0 {
				for c := range st.cats {
					if c == k || strings.HasPrefix(c, k+"\x00") {
						delete(st.cats, c)
						delete(st.arts, c)
					}
				}
				sc.Steps = append(sc.Steps, SymUpdate{Kind: "news_delitem", Path: splitPath(k)})
			}
		}
	}
	return sc
}

// ShrinkSym is a script in which every store that can shrink does so right after it grew: post an article then
// delete one, create a category then delete it, ban until a date then permanently (shorter YAML), create an account
// and update it at once.  After a kill inside the growing update, the next (smaller) update meets whatever the dead
// process left behind (a longer temp file, a hard link, ...).
func ShrinkSym(r *rand.Rand) SymScript {
	w := SymWorld{Board: []int{900}, BansFile: r.Intn(2) == 1, Accts: [][2]any{{"alice", 800}, {"bob", 801}},
		Cats: [][2]any{{[]string{"General"}, 3}}, Arts: [][3]any{{[]string{"General"}, 1, 700}}}
	if w.BansFile {
		w.Bans = [][2]any{{"10.0.0.1", 2}}
	}
	n := 200
	fresh := func() int { n++; return n }
	g := []string{"General"}
	blocks := [][]SymUpdate{
		{{Kind: "news_post", Path: g, Parent: 1, R: fresh()}, {Kind: "news_delart", Path: g, ID: 1}},
		{{Kind: "news_cat", Path: []string{}, Name: "Archive", Type: 3}, {Kind: "news_post", Path: []string{"Archive"}, R: fresh()},
			{Kind: "news_delitem", Path: []string{"Archive"}}},
		{{Kind: "ban_add", IP: "192.168.7.77", T: 3}, {Kind: "ban_add", IP: "192.168.7.77", T: 0}},
		{{Kind: "acct_create", Login: "dave", R: fresh()}, {Kind: "acct_update", Login: "dave", R: fresh()},
			{Kind: "acct_rename", Login: "dave", To: "erin", R: fresh()}, {Kind: "acct_delete", Login: "erin"}},
		{{Kind: "acct_update", Login: "alice", R: fresh()}, {Kind: "acct_update", Login: "alice", R: fresh()}},
		{{Kind: "board_post", P: fresh()}, {Kind: "board_post", P: fresh()}},
		{{Kind: "news_post", Path: g, R: fresh()}, {Kind: "news_post", Path: g, R: fresh()}, {Kind: "news_delart", Path: g, ID: 2}},
	}
	r.Shuffle(len(blocks)-1, func(i, j int) { blocks[i], blocks[j] = blocks[j], blocks[i] })
	sc := SymScript{World: w, Src: "shrink"}
	for _, b := range blocks {
		sc.Steps = append(sc.Steps, b...)
	}
	return sc
}

// ---- files -------------------------------------------------------------------------------------------------------

func ReadScripts(path string) ([]Script, error) {
	f, err := os.Open(path)
	if err != nil {
		return nil, err
	}
	defer f.Close()
	var out []Script
	sc := bufio.NewScanner(f)
	sc.Buffer(make([]byte, 1<<20), 1<<28)
	for sc.Scan() {
		if len(strings.TrimSpace(sc.Text())) == 0 {
			continue
		}
		var s Script
		if err := json.Unmarshal(sc.Bytes(), &s); err != nil {
			return nil, fmt.Errorf("%s: %v", path, err)
		}
		out = append(out, s)
	}
	return out, sc.Err()
}

func ReadSymScripts(path string) ([]SymScript, error) {
	f, err := os.Open(path)
	if err != nil {
		return nil, err
	}
	defer f.Close()
	var out []SymScript
	sc := bufio.NewScanner(f)
	sc.Buffer(make([]byte, 1<<20), 1<<28)
	for sc.Scan() {
		if len(strings.TrimSpace(sc.Text())) == 0 {
			continue
		}
		var s SymScript
		if err := json.Unmarshal(sc.Bytes(), &s); err != nil {
			return nil, fmt.Errorf("%s: %v", path, err)
		}
		if s.Src == "" {
			s.Src = "tlc"
		}
		out = append(out, s)
	}
	return out, sc.Err()
}
