package persist

import (
	"crypto/sha256"
	"encoding/hex"
	"fmt"
	"io/fs"
	"os"
	"path/filepath"
	"sort"
	"strings"
)

// VFS re-executes logged system calls on an in-memory directory: names -> inodes -> bytes, descriptors with an
// offset.  It is written from the POSIX semantics of the calls, independently of the stores.
type inode struct {
	id   int
	data []byte
}

type fdesc struct {
	ino    *inode
	off    int64
	app    bool
	rdonly bool
}

type VFS struct {
	names map[string]*inode // path relative to the config directory -> inode (regular files only)
	fds   map[int]*fdesc
	next  int
}

func NewVFS() *VFS { return &VFS{names: map[string]*inode{}, fds: map[int]*fdesc{}} }

// LoadDir reads a real directory as the initial state.
func LoadDir(root string) (*VFS, error) {
	v := NewVFS()
	err := filepath.WalkDir(root, func(p string, d fs.DirEntry, err error) error {
		if err != nil {
			return err
		}
		if d.Type().IsRegular() {
			b, err := os.ReadFile(p)
			if err != nil {
				return err
			}
			rel, _ := filepath.Rel(root, p)
			v.next++
			v.names[filepath.ToSlash(rel)] = &inode{id: v.next, data: b}
		}
		return nil
	})
	return v, err
}

func (v *VFS) Clone() *VFS {
	c := NewVFS()
	c.next = v.next
	im := map[*inode]*inode{}
	cp := func(i *inode) *inode {
		if n, ok := im[i]; ok {
			return n
		}
		n := &inode{id: i.id, data: append([]byte(nil), i.data...)}
		im[i] = n
		return n
	}
	for k, i := range v.names {
		c.names[k] = cp(i)
	}
	for k, d := range v.fds {
		c.fds[k] = &fdesc{ino: cp(d.ino), off: d.off, app: d.app, rdonly: d.rdonly}
	}
	return c
}

func hasFlag(fl []string, f string) bool {
	for _, x := range fl {
		if x == f {
			return true
		}
	}
	return false
}

func (d *fdesc) write(b []byte, off int64) {
	if d.app {
		off = int64(len(d.ino.data))
	}
	end := off + int64(len(b))
	if int64(len(d.ino.data)) < end {
		d.ino.data = append(d.ino.data, make([]byte, end-int64(len(d.ino.data)))...)
	}
	copy(d.ino.data[off:end], b)
}

// Apply executes one logged call.  cut >= 0 executes a write that transferred only its first cut bytes (the process
// died inside the call).  Calls that failed in the log change nothing.
func (v *VFS) Apply(e Sys, cut int) error {
	if !e.OK() {
		return nil
	}
	switch e.Call {
	case "open":
		ino, exists := v.names[e.Path]
		creat := hasFlag(e.Flags, "O_CREAT")
		switch {
		case exists && creat && hasFlag(e.Flags, "O_EXCL"):
			return fmt.Errorf("line %d: O_EXCL open of %s succeeded but the file exists in the re-execution", e.Line, e.Path)
		case !exists && !creat:
			if strings.HasSuffix(e.Path, "/") || isDirLike(v, e.Path) {
				return nil // a directory
			}
			return fmt.Errorf("line %d: open of %s succeeded but the file is absent in the re-execution", e.Line, e.Path)
		case !exists:
			v.next++
			ino = &inode{id: v.next}
			v.names[e.Path] = ino
		}
		rd := hasFlag(e.Flags, "O_RDONLY")
		if hasFlag(e.Flags, "O_TRUNC") && !rd {
			ino.data = nil
		}
		v.fds[e.FD] = &fdesc{ino: ino, app: hasFlag(e.Flags, "O_APPEND"), rdonly: rd}
	case "write":
		d, ok := v.fds[e.FD]
		if !ok {
			return fmt.Errorf("line %d: write to unknown descriptor %d (%s)", e.Line, e.FD, e.Path)
		}
		n := int(e.Ret)
		if n > len(e.Data) {
			return fmt.Errorf("line %d: write returned %d for %d logged bytes", e.Line, n, len(e.Data))
		}
		if cut >= 0 && cut < n {
			n = cut
		}
		if e.Off >= 0 {
			d.write(e.Data[:n], e.Off)
		} else {
			d.write(e.Data[:n], d.off)
			if d.app {
				d.off = int64(len(d.ino.data))
			} else {
				d.off += int64(n)
			}
		}
	case "rename":
		ino, ok := v.names[e.Path]
		if !ok {
			if isDirLike(v, e.Path) {
				return fmt.Errorf("line %d: directory rename %s is not supported", e.Line, e.Path)
			}
			return fmt.Errorf("line %d: rename of absent %s succeeded", e.Line, e.Path)
		}
		if len(e.Flags) > 0 {
			return fmt.Errorf("line %d: renameat2 flags %v are not supported", e.Line, e.Flags)
		}
		if e.Path != e.Path2 {
			v.names[e.Path2] = ino
			delete(v.names, e.Path)
		}
	case "link":
		ino, ok := v.names[e.Path]
		if !ok {
			return fmt.Errorf("line %d: link of absent %s succeeded", e.Line, e.Path)
		}
		if _, ex := v.names[e.Path2]; ex {
			return fmt.Errorf("line %d: link onto existing %s succeeded", e.Line, e.Path2)
		}
		v.names[e.Path2] = ino
	case "unlink":
		if _, ok := v.names[e.Path]; !ok {
			return fmt.Errorf("line %d: unlink of absent %s succeeded", e.Line, e.Path)
		}
		delete(v.names, e.Path)
	case "rmdir":
		return fmt.Errorf("line %d: rmdir %s is not supported", e.Line, e.Path)
	case "close":
		delete(v.fds, e.FD)
	case "ftruncate":
		d, ok := v.fds[e.FD]
		if !ok {
			return fmt.Errorf("line %d: ftruncate of unknown descriptor %d", e.Line, e.FD)
		}
		if int64(len(d.ino.data)) > e.Len {
			d.ino.data = d.ino.data[:e.Len]
		} else {
			d.ino.data = append(d.ino.data, make([]byte, e.Len-int64(len(d.ino.data)))...)
		}
	case "fsync":
	default:
		return fmt.Errorf("line %d: unknown call %q", e.Line, e.Call)
	}
	return nil
}

func isDirLike(v *VFS, p string) bool {
	for k := range v.names {
		if strings.HasPrefix(k, p+"/") {
			return true
		}
	}
	return p == UsersDir
}

// Key identifies the directory state (names and contents; open descriptors do not survive a crash).
func (v *VFS) Key() string {
	names := make([]string, 0, len(v.names))
	for k := range v.names {
		names = append(names, k)
	}
	sort.Strings(names)
	h := sha256.New()
	for _, k := range names {
		s := sha256.Sum256(v.names[k].data)
		fmt.Fprintf(h, "%s|%d|%s\n", k, len(v.names[k].data), hex.EncodeToString(s[:]))
	}
	return hex.EncodeToString(h.Sum(nil)[:16])
}

// Listing is the comparable description of a directory state: "path size hash" lines.
func (v *VFS) Listing() []string {
	var out []string
	for k, i := range v.names {
		s := sha256.Sum256(i.data)
		out = append(out, fmt.Sprintf("%s %d %s", k, len(i.data), hex.EncodeToString(s[:8])))
	}
	sort.Strings(out)
	return out
}

// DirListing describes a real directory in the same form.
func DirListing(root string) ([]string, error) {
	v, err := LoadDir(root)
	if err != nil {
		return nil, err
	}
	return v.Listing(), nil
}

// Dump writes the state into an empty real directory (hard links are kept as hard links).
func (v *VFS) Dump(root string) error {
	if err := os.MkdirAll(filepath.Join(root, UsersDir), 0o755); err != nil {
		return err
	}
	first := map[*inode]string{}
	names := make([]string, 0, len(v.names))
	for k := range v.names {
		names = append(names, k)
	}
	sort.Strings(names)
	for _, k := range names {
		p := filepath.Join(root, filepath.FromSlash(k))
		if err := os.MkdirAll(filepath.Dir(p), 0o755); err != nil {
			return err
		}
		ino := v.names[k]
		if q, ok := first[ino]; ok {
			if err := os.Link(q, p); err != nil {
				return err
			}
			continue
		}
		if err := os.WriteFile(p, ino.data, 0o644); err != nil {
			return err
		}
		first[ino] = p
	}
	return nil
}
