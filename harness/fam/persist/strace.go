package persist

import (
	"bufio"
	"fmt"
	"os"
	"path/filepath"
	"regexp"
	"strconv"
	"strings"
)

// Sys is one logged system call that touches the config directory (or the marker file).
type Sys struct {
	Line  int      // line of the strace log
	Tid   int      // thread
	Name  string   // system call name as logged (openat, renameat2, ...): strace's injection counter is per name
	Call  string   // open | write | rename | link | unlink | close | ftruncate | fsync
	Path  string   // path relative to the config directory (for fd calls: the path strace resolved for the fd)
	Path2 string   // rename/link target
	Flags []string // open flags
	FD    int
	Data  []byte // write payload (as passed; Ret bytes of it were written)
	Off   int64  // pwrite offset, -1 otherwise
	Len   int64  // ftruncate length
	Ret   int64
	Errno string
	Mark  string // non-empty: a marker line written by vh-persistd
	Seq   int    // this is the Seq-th call named Name entered by thread Tid (over ALL its calls, whatever they touch)
}

func (s Sys) OK() bool { return s.Errno == "" && s.Ret >= 0 }

var lineRe = regexp.MustCompile(`^(\d+)\s+(.*)$`)
var resumedRe = regexp.MustCompile(`^<\.\.\. (\w+) resumed>\s*(.*)$`)
var retRe = regexp.MustCompile(`^(.*)\)\s+= (-?\d+|\?)(<[^>]*>)?(?: (E[A-Z0-9]+) \([^)]*\))?\s*$`)

// tokenise the argument list of one call: quoted strings are decoded, everything else is kept as text
type arg struct {
	s      string
	quoted bool
	trunc  bool // the string was abbreviated by strace ("..." suffix)
}

func unescape(s string, i int) ([]byte, int, error) {
	// s[i] is the opening quote; returns the decoded bytes and the index after the closing quote
	var out []byte
	i++
	for i < len(s) {
		c := s[i]
		switch {
		case c == '"':
			return out, i + 1, nil
		case c == '\\':
			i++
			if i >= len(s) {
				return nil, i, fmt.Errorf("dangling backslash")
			}
			e := s[i]
			switch e {
			case 'n':
				out = append(out, '\n')
			case 't':
				out = append(out, '\t')
			case 'r':
				out = append(out, '\r')
			case 'v':
				out = append(out, '\v')
			case 'f':
				out = append(out, '\f')
			case 'a':
				out = append(out, 7)
			case 'b':
				out = append(out, 8)
			case 'e':
				out = append(out, 27)
			case '"', '\\':
				out = append(out, e)
			case 'x':
				if i+2 >= len(s) {
					return nil, i, fmt.Errorf("short hex escape")
				}
				v, err := strconv.ParseUint(s[i+1:i+3], 16, 8)
				if err != nil {
					return nil, i, err
				}
				out = append(out, byte(v))
				i += 2
			default:
				if e < '0' || e > '7' {
					return nil, i, fmt.Errorf("unknown escape \\%c", e)
				}
				v, n := 0, 0
				for n < 3 && i < len(s) && s[i] >= '0' && s[i] <= '7' {
					v = v*8 + int(s[i]-'0')
					i++
					n++
				}
				i--
				out = append(out, byte(v))
			}
			i++
		default:
			out = append(out, c)
			i++
		}
	}
	return nil, i, fmt.Errorf("unterminated string")
}

func splitArgs(s string) ([]arg, error) {
	var args []arg
	i := 0
	for i < len(s) {
		for i < len(s) && (s[i] == ' ' || s[i] == ',') {
			i++
		}
		if i >= len(s) {
			break
		}
		if s[i] == '"' {
			b, j, err := unescape(s, i)
			if err != nil {
				return nil, err
			}
			a := arg{s: string(b), quoted: true}
			if strings.HasPrefix(s[j:], "...") {
				a.trunc = true
				j += 3
			}
			args = append(args, a)
			i = j
			continue
		}
		// plain token up to the next top-level comma; <...> annotations may contain anything but '>'
		j, depth := i, 0
		for j < len(s) {
			if s[j] == '<' {
				depth++
			} else if s[j] == '>' && depth > 0 {
				depth--
			} else if s[j] == ',' && depth == 0 {
				break
			}
			j++
		}
		args = append(args, arg{s: strings.TrimSpace(s[i:j])})
		i = j
	}
	return args, nil
}

var fdRe = regexp.MustCompile(`^(-?\d+|AT_FDCWD)(?:<(.*)>)?$`)

func fdArg(a arg) (int, string) {
	m := fdRe.FindStringSubmatch(a.s)
	if m == nil {
		return -1, ""
	}
	n := -100
	if m[1] != "AT_FDCWD" {
		n, _ = strconv.Atoi(m[1])
	}
	return n, strings.TrimSuffix(m[2], " (deleted)")
}

func joinAt(dir arg, p string) string {
	if filepath.IsAbs(p) {
		return filepath.Clean(p)
	}
	_, d := fdArg(dir)
	return filepath.Clean(filepath.Join(d, p))
}

// ParseStrace reads a `strace -f -y` log and returns the calls that touch files below cfg (paths made relative to it)
// and the marker writes to markPath, in log order.
func ParseStrace(logPath, cfg, markPath string) ([]Sys, error) {
	return parseStrace(logPath, cfg, markPath, false)
}

// parseStrace with tolerant=true accepts a log that ends abruptly (the traced process was killed).
func parseStrace(logPath, cfg, markPath string, tolerant bool) ([]Sys, error) {
	f, err := os.Open(logPath)
	if err != nil {
		return nil, err
	}
	defer f.Close()
	cfg = filepath.Clean(cfg)
	rel := func(p string) (string, bool) {
		if p == "" {
			return "", false
		}
		p = filepath.Clean(p)
		if strings.HasPrefix(p, cfg+"/") {
			return p[len(cfg)+1:], true
		}
		return "", false
	}
	pending := map[int]string{}
	pendingSeq := map[int]int{}
	entered := map[string]int{} // "tid/name" -> calls entered so far
	var out []Sys
	sc := bufio.NewScanner(f)
	sc.Buffer(make([]byte, 1<<20), 1<<30)
	ln := 0
	for sc.Scan() {
		ln++
		m := lineRe.FindStringSubmatch(sc.Text())
		if m == nil {
			return nil, fmt.Errorf("%s:%d: unparsable line", logPath, ln)
		}
		tid, _ := strconv.Atoi(m[1])
		body := m[2]
		if strings.HasPrefix(body, "---") || strings.HasPrefix(body, "+++") {
			continue
		}
		seq := 0
		if r := resumedRe.FindStringSubmatch(body); r != nil {
			body = pending[tid] + r[2]
			seq = pendingSeq[tid]
			delete(pending, tid)
		} else if par := strings.IndexByte(body, '('); par > 0 {
			k := fmt.Sprintf("%d/%s", tid, body[:par])
			entered[k]++
			seq = entered[k]
		}
		if strings.HasSuffix(body, "<unfinished ...>") {
			pending[tid] = strings.TrimSuffix(body, "<unfinished ...>")
			pendingSeq[tid] = seq
			continue
		}
		par := strings.IndexByte(body, '(')
		if par <= 0 {
			continue
		}
		name := body[:par]
		rm := retRe.FindStringSubmatch(body[par+1:])
		if rm == nil {
			if tolerant {
				continue
			}
			// a call cut short by the death of the process ("= ?" is matched above); anything else is unexpected
			return nil, fmt.Errorf("%s:%d: no return value in %q", logPath, ln, trunc(body, 120))
		}
		args, err := splitArgs(rm[1])
		if err != nil {
			return nil, fmt.Errorf("%s:%d: %v", logPath, ln, err)
		}
		ev := Sys{Line: ln, Tid: tid, Name: name, Off: -1, FD: -1, Seq: seq}
		if rm[2] == "?" {
			ev.Ret, ev.Errno = -1, "KILLED"
		} else {
			ev.Ret, _ = strconv.ParseInt(rm[2], 10, 64)
		}
		if rm[4] != "" {
			ev.Errno = rm[4]
		}
		need := func(n int) error {
			if len(args) < n {
				return fmt.Errorf("%s:%d: %s with %d arguments", logPath, ln, name, len(args))
			}
			return nil
		}
		var p1, p2 string
		switch name {
		case "openat", "open":
			ev.Call = "open"
			var fl arg
			if name == "openat" {
				if err := need(3); err != nil {
					return nil, err
				}
				p1, fl = joinAt(args[0], args[1].s), args[2]
			} else {
				if err := need(2); err != nil {
					return nil, err
				}
				p1, fl = filepath.Clean(args[0].s), args[1]
			}
			ev.Flags = strings.Split(fl.s, "|")
			ev.FD = int(ev.Ret)
		case "write", "pwrite64":
			ev.Call = "write"
			if err := need(3); err != nil {
				return nil, err
			}
			ev.FD, p1 = fdArg(args[0])
			if args[1].trunc || !args[1].quoted {
				if _, in := rel(p1); in || p1 == markPath {
					return nil, fmt.Errorf("%s:%d: write payload abbreviated by strace", logPath, ln)
				}
			}
			ev.Data = []byte(args[1].s)
			if name == "pwrite64" {
				if err := need(4); err != nil {
					return nil, err
				}
				ev.Off, _ = strconv.ParseInt(args[3].s, 10, 64)
			}
		case "rename":
			ev.Call = "rename"
			if err := need(2); err != nil {
				return nil, err
			}
			p1, p2 = filepath.Clean(args[0].s), filepath.Clean(args[1].s)
		case "renameat", "renameat2":
			ev.Call = "rename"
			if err := need(4); err != nil {
				return nil, err
			}
			p1, p2 = joinAt(args[0], args[1].s), joinAt(args[2], args[3].s)
			if name == "renameat2" && len(args) > 4 && args[4].s != "0" {
				ev.Flags = strings.Split(args[4].s, "|")
			}
		case "link":
			ev.Call = "link"
			if err := need(2); err != nil {
				return nil, err
			}
			p1, p2 = filepath.Clean(args[0].s), filepath.Clean(args[1].s)
		case "linkat":
			ev.Call = "link"
			if err := need(4); err != nil {
				return nil, err
			}
			p1, p2 = joinAt(args[0], args[1].s), joinAt(args[2], args[3].s)
		case "unlink":
			ev.Call = "unlink"
			if err := need(1); err != nil {
				return nil, err
			}
			p1 = filepath.Clean(args[0].s)
		case "unlinkat":
			ev.Call = "unlink"
			if err := need(3); err != nil {
				return nil, err
			}
			p1 = joinAt(args[0], args[1].s)
			if strings.Contains(args[2].s, "AT_REMOVEDIR") {
				ev.Call = "rmdir"
			}
		case "close":
			ev.Call = "close"
			if err := need(1); err != nil {
				return nil, err
			}
			ev.FD, p1 = fdArg(args[0])
		case "ftruncate":
			ev.Call = "ftruncate"
			if err := need(2); err != nil {
				return nil, err
			}
			ev.FD, p1 = fdArg(args[0])
			ev.Len, _ = strconv.ParseInt(args[1].s, 10, 64)
		case "fsync", "fdatasync":
			ev.Call = "fsync"
			if err := need(1); err != nil {
				return nil, err
			}
			ev.FD, p1 = fdArg(args[0])
		default:
			continue
		}
		if ev.Call == "write" && filepath.Clean(p1) == filepath.Clean(markPath) {
			ev.Mark = strings.TrimRight(string(ev.Data), "\n")
			out = append(out, ev)
			continue
		}
		r1, in1 := rel(p1)
		r2, in2 := rel(p2)
		if !in1 && !in2 {
			continue
		}
		if p2 != "" && in1 != in2 {
			return nil, fmt.Errorf("%s:%d: %s between the config directory and the outside: %s -> %s", logPath, ln, name, p1, p2)
		}
		ev.Path, ev.Path2 = r1, r2
		out = append(out, ev)
	}
	if err := sc.Err(); err != nil {
		return nil, err
	}
	if len(pending) > 0 && !tolerant {
		// unfinished calls of other threads at exit are harmless; one touching the config dir would have been resumed
		for _, p := range pending {
			if strings.Contains(p, cfg+"/") {
				return nil, fmt.Errorf("%s: unfinished call on the config directory: %s", logPath, trunc(p, 160))
			}
		}
	}
	return out, nil
}

func trunc(s string, n int) string {
	if len(s) > n {
		return s[:n] + "..."
	}
	return s
}
