package persist

import (
	"flag"
	"fmt"
	"os"
	"runtime"
	"strings"
)

func init() {
	// Everything vh-persistd does to the config directory happens on the main thread: the syscall log of that
	// thread is the update protocol, and strace's per-tracee injection counter is deterministic.
	runtime.LockOSThread()
}

// RunDaemon is vh-persistd: load the four stores of -dir with the real constructors, perform the updates of run
// -run of -scripts through the stores' own methods, and write a marker line to -mark before ("B j") and after
// ("E j ok" / "E j err ...") each update.  It decides nothing.
func RunDaemon(args []string) error {
	fs := flag.NewFlagSet("vh-persistd", flag.ContinueOnError)
	dir := fs.String("dir", "", "config directory (already seeded)")
	scripts := fs.String("scripts", "", "concrete scripts (ndjson)")
	run := fs.Int("run", 1, "run number of the script to perform")
	mark := fs.String("mark", "", "marker file (outside the config directory)")
	if err := fs.Parse(args); err != nil {
		return err
	}
	all, err := ReadScripts(*scripts)
	if err != nil {
		return err
	}
	var sc *Script
	for i := range all {
		if all[i].Run == *run {
			sc = &all[i]
		}
	}
	if sc == nil {
		return fmt.Errorf("no script with run %d", *run)
	}
	mf, err := os.OpenFile(*mark, os.O_WRONLY|os.O_CREATE|os.O_APPEND, 0o644)
	if err != nil {
		return err
	}
	defer mf.Close()
	st, errs := Open(*dir)
	if len(errs) > 0 {
		return fmt.Errorf("initial load failed: %v", errs)
	}
	if _, err := fmt.Fprintf(mf, "S %d\n", len(sc.Updates)); err != nil {
		return err
	}
	for j, u := range sc.Updates {
		if _, err := fmt.Fprintf(mf, "B %d\n", j); err != nil {
			return err
		}
		err := st.Do(u)
		res := "ok"
		if err != nil {
			res = "err " + strings.ReplaceAll(err.Error(), "\n", " ")
		}
		if _, err := fmt.Fprintf(mf, "E %d %s\n", j, res); err != nil {
			return err
		}
	}
	return nil
}
