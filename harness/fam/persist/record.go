package persist

import (
	"bufio"
	"context"
	"encoding/json"
	"flag"
	"fmt"
	"os"
	"os/exec"
	"path/filepath"
	"strings"
	"sync"
	"time"
)

const traceSet = "trace=openat,open,write,pwrite64,rename,renameat,renameat2,link,linkat,unlink,unlinkat,close,ftruncate,fsync,fdatasync"

func persistdPath(flagVal string) (string, error) {
	if flagVal != "" {
		return flagVal, nil
	}
	self, err := os.Executable()
	if err != nil {
		return "", err
	}
	p := filepath.Join(filepath.Dir(self), "vh-persistd")
	if _, err := os.Stat(p); err != nil {
		return "", fmt.Errorf("vh-persistd not found next to %s", self)
	}
	return p, nil
}

func runCmd(timeout time.Duration, name string, args ...string) (int, string, error) {
	ctx, cancel := context.WithTimeout(context.Background(), timeout)
	defer cancel()
	cmd := exec.CommandContext(ctx, name, args...)
	out, err := cmd.CombinedOutput()
	if ctx.Err() != nil {
		return -1, string(out), fmt.Errorf("timeout after %v: %s %s", timeout, name, trunc(strings.Join(args, " "), 200))
	}
	if ee, ok := err.(*exec.ExitError); ok {
		return ee.ExitCode(), string(out), nil
	}
	if err != nil {
		return -1, string(out), err
	}
	return 0, string(out), nil
}

// probe: is ptrace usable here (tracing and signal injection)?  Anything else makes the check inconclusive.
func runProbe(args []string) error {
	d, err := os.MkdirTemp(scratchBase(), "probe-")
	if err != nil {
		return err
	}
	defer os.RemoveAll(d)
	lg := filepath.Join(d, "log")
	rc, out, err := runCmd(20*time.Second, "strace", "-f", "-y", "-o", lg, "-e", "trace=write", "/bin/sh", "-c", "echo x > "+filepath.Join(d, "f"))
	if err != nil {
		return fmt.Errorf("strace unavailable: %v", err)
	}
	b, _ := os.ReadFile(lg)
	if rc != 0 || !strings.Contains(string(b), "write(") {
		return fmt.Errorf("strace cannot trace here (rc=%d): %s", rc, trunc(out, 300))
	}
	rc, out, err = runCmd(20*time.Second, "strace", "-f", "-o", "/dev/null", "-e", "trace=write", "-e", "inject=write:signal=SIGKILL:when=1",
		"/bin/sh", "-c", "echo x > "+filepath.Join(d, "g")+"; echo survived > "+filepath.Join(d, "h"))
	if err != nil {
		return fmt.Errorf("strace injection unavailable: %v", err)
	}
	if _, err := os.Stat(filepath.Join(d, "h")); err == nil {
		return fmt.Errorf("strace signal injection has no effect here (rc=%d): %s", rc, trunc(out, 300))
	}
	fmt.Println("ptrace ok")
	return nil
}

// record: seed every script's config directory twice (init/ stays pristine), run vh-persistd on config/ under strace.
func runRecord(args []string) error {
	fs := flag.NewFlagSet("record", flag.ContinueOnError)
	scripts := fs.String("scripts", "", "concrete scripts")
	rec := fs.String("rec", "", "output directory")
	pd := fs.String("persistd", "", "path of vh-persistd (default: next to this binary)")
	par := fs.Int("par", 8, "parallel runs")
	if err := fs.Parse(args); err != nil {
		return err
	}
	bin, err := persistdPath(*pd)
	if err != nil {
		return err
	}
	all, err := ReadScripts(*scripts)
	if err != nil {
		return err
	}
	abs, err := filepath.Abs(*rec)
	if err != nil {
		return err
	}
	absScripts, err := filepath.Abs(*scripts)
	if err != nil {
		return err
	}
	errs := make([]error, len(all))
	sem := make(chan struct{}, *par)
	var wg sync.WaitGroup
	for i := range all {
		wg.Add(1)
		sem <- struct{}{}
		go func(i int) {
			defer wg.Done()
			defer func() { <-sem }()
			sc := all[i]
			rdir := filepath.Join(abs, fmt.Sprintf("run%d", sc.Run))
			for _, sub := range []string{"init", "config"} {
				if err := Seed(filepath.Join(rdir, sub), sc.Init); err != nil {
					errs[i] = err
					return
				}
			}
			rc, out, err := runCmd(90*time.Second, "strace", "-f", "-y", "-s", "4000000", "-e", traceSet, "-o", filepath.Join(rdir, "strace.log"),
				bin, "-dir", filepath.Join(rdir, "config"), "-scripts", absScripts, "-run", fmt.Sprint(sc.Run), "-mark", filepath.Join(rdir, "mark"))
			if err != nil {
				errs[i] = err
			} else if rc != 0 {
				errs[i] = fmt.Errorf("run %d: vh-persistd under strace exited %d: %s", sc.Run, rc, trunc(out, 600))
			}
		}(i)
	}
	wg.Wait()
	for _, e := range errs {
		if e != nil {
			return e
		}
	}
	fmt.Printf("recorded %d runs\n", len(all))
	return nil
}

// kill: reproduce planned boundaries with a real SIGKILL injected by strace at the entry of the addressed call, then
// re-execute the killed run's OWN syscall log (everything that completed before the kill) from the initial directory
// and compare with the directory the dead process really left behind.  Reports, never judges the property.
func runKill(args []string) error {
	fs := flag.NewFlagSet("kill", flag.ContinueOnError)
	scripts := fs.String("scripts", "", "concrete scripts")
	plan := fs.String("plan", "", "kill plan written by materialise")
	out := fs.String("out", "kills.out.ndjson", "results")
	pd := fs.String("persistd", "", "path of vh-persistd")
	par := fs.Int("par", 8, "parallel kills")
	if err := fs.Parse(args); err != nil {
		return err
	}
	bin, err := persistdPath(*pd)
	if err != nil {
		return err
	}
	all, err := ReadScripts(*scripts)
	if err != nil {
		return err
	}
	absScripts, err := filepath.Abs(*scripts)
	if err != nil {
		return err
	}
	var pts []KillPoint
	pf, err := os.Open(*plan)
	if err != nil {
		return err
	}
	scn := bufio.NewScanner(pf)
	scn.Buffer(make([]byte, 1<<20), 1<<28)
	for scn.Scan() {
		var k KillPoint
		if err := json.Unmarshal(scn.Bytes(), &k); err != nil {
			return err
		}
		pts = append(pts, k)
	}
	pf.Close()
	base, err := os.MkdirTemp(scratchBase(), "kill-")
	if err != nil {
		return err
	}
	defer os.RemoveAll(base)
	results := make([]map[string]any, len(pts))
	errs := make([]error, len(pts))
	sem := make(chan struct{}, *par)
	var wg sync.WaitGroup
	for i := range pts {
		wg.Add(1)
		sem <- struct{}{}
		go func(i int) {
			defer wg.Done()
			defer func() { <-sem }()
			k := pts[i]
			sc, err := findRun(all, k.Run)
			if err != nil {
				errs[i] = err
				return
			}
			d := filepath.Join(base, fmt.Sprintf("k%d", i))
			cfg, initDir, mark, klog := filepath.Join(d, "config"), filepath.Join(d, "init"), filepath.Join(d, "mark"), filepath.Join(d, "strace.log")
			for _, sub := range []string{cfg, initDir} {
				if err := Seed(sub, sc.Init); err != nil {
					errs[i] = err
					return
				}
			}
			_, _, err = runCmd(90*time.Second, "strace", "-f", "-y", "-s", "4000000", "-e", traceSet, "-o", klog,
				"-e", fmt.Sprintf("inject=%s:signal=SIGKILL:when=%d", k.Name, k.When),
				bin, "-dir", cfg, "-scripts", absScripts, "-run", fmt.Sprint(k.Run), "-mark", mark)
			if err != nil {
				errs[i] = err
				return
			}
			lg, _ := os.ReadFile(klog)
			killed := strings.Contains(string(lg), "+++ killed by SIGKILL +++")
			evs, err := parseStrace(klog, cfg, mark, true)
			if err != nil {
				errs[i] = err
				return
			}
			v, err := LoadDir(initDir)
			if err != nil {
				errs[i] = err
				return
			}
			lastMark, inUpd, atKill := "", 0, ""
			for _, e := range evs {
				if e.Mark != "" {
					lastMark, inUpd = e.Mark, 0
					continue
				}
				if e.Errno == "KILLED" {
					atKill = e.Name + " " + e.Path
					continue
				}
				if err := v.Apply(e, -1); err != nil {
					errs[i] = fmt.Errorf("kill %d: %v", i, err)
					return
				}
				inUpd++
			}
			got, err := DirListing(cfg)
			if err != nil {
				errs[i] = err
				return
			}
			want := v.Listing()
			match := killed && strings.Join(got, "\n") == strings.Join(want, "\n")
			onTarget := lastMark == fmt.Sprintf("B %d", k.U) && inUpd == k.I
			results[i] = map[string]any{"run": k.Run, "u": k.U, "i": k.I, "kind": k.Kind, "call": k.Call, "name": k.Name, "when": k.When,
				"match": match, "killed": killed, "on_target": onTarget, "last_mark": lastMark, "killed_in": atKill, "files": len(got)}
			if !match {
				results[i]["real"] = got
				results[i]["reexecuted"] = want
			}
		}(i)
	}
	wg.Wait()
	for _, e := range errs {
		if e != nil {
			return e
		}
	}
	f, err := os.Create(*out)
	if err != nil {
		return err
	}
	w := bufio.NewWriter(f)
	bad, off := 0, 0
	for _, r := range results {
		b, _ := json.Marshal(r)
		w.Write(b)
		w.WriteByte('\n')
		if r["match"] != true {
			bad++
		}
		if r["on_target"] != true {
			off++
		}
	}
	if err := w.Flush(); err != nil {
		return err
	}
	f.Close()
	fmt.Printf("KILLS %d mismatches %d off-target %d\n", len(results), bad, off)
	return nil
}
