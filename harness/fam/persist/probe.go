package persist

import (
	"fmt"
	"io"
	"log/slog"
	"os"
	"sort"
	"strings"

	"github.com/jhalter/mobius/hotline"
	"github.com/jhalter/mobius/verifexport"
)

// Crash histories through the real request handlers: the process was killed (crashed directory), the server restarts
// on it (real constructors), a client issues ONE further change through the real handler of that change (the reply
// tells whether it was acknowledged), the server restarts again (real constructors), and what they hold is recorded.
// Nothing is judged here: Trace_Persist compares with Effect(update, recovered value).

const (
	probeIP     = "203.0.113.7"
	probePrefix = "zz-probe" // logins / titles carrying it have their time- and salt-dependent parts masked in projections
	probeMarker = "[[probe]]"
)

type nopConn struct{}

func (nopConn) Read(p []byte) (int, error)  { return 0, io.EOF }
func (nopConn) Write(p []byte) (int, error) { return len(p), nil }
func (nopConn) Close() error                { return nil }

func discardLogger() *slog.Logger { return slog.New(slog.NewTextHandler(io.Discard, nil)) }

func allAccess() hotline.AccessBitmap {
	var a hotline.AccessBitmap
	for i := range a {
		a[i] = 0xff
	}
	return a
}

// restart builds a real server on the directory: real stores, real handlers.
func restart(dir string) (*hotline.Server, *Stores, *hotline.ClientConn, error) {
	st, errs := Open(dir)
	if len(errs) > 0 {
		return nil, nil, nil, fmt.Errorf("does not start: %v", errs)
	}
	srv, err := hotline.NewServer(hotline.WithConfig(hotline.Config{Name: "verif", Description: "c20", FileRoot: dir}), hotline.WithLogger(discardLogger()))
	if err != nil {
		return nil, nil, nil, err
	}
	srv.AccountManager, srv.BanList, srv.MessageBoard, srv.ThreadedNewsMgr = st.AM, st.Bans, st.Board, st.News
	verifexport.RegisterHandlers(srv)
	admin := &hotline.ClientConn{Connection: nopConn{}, RemoteAddr: "192.0.2.1:1000", ID: [2]byte{0x7f, 0x01}, UserName: []byte("probe"),
		Icon: []byte{0, 1}, Account: &hotline.Account{Login: "zz-admin", Name: "zz-admin", Access: allAccess()}, Server: srv, Logger: discardLogger()}
	return srv, st, admin, nil
}

func obfuscate(s string) []byte { return hotline.EncodeString([]byte(s)) }

func newsPathField(p []string) []byte {
	b := []byte{byte(len(p) >> 8), byte(len(p))}
	for _, n := range p {
		b = append(b, 0, 0, byte(len(n)))
		b = append(b, n...)
	}
	return b
}

func fieldBytes(f hotline.Field) []byte {
	b := append([]byte{}, f.Type[:]...)
	b = append(b, f.FieldSize[:]...)
	return append(b, f.Data...)
}

// ask calls the registered handler of the transaction and says whether the reply acknowledges it.
func ask(srv *hotline.Server, cc *hotline.ClientConn, typ hotline.TranType, fields ...hotline.Field) (acked bool, note string) {
	h, ok := srv.VerifHandler(typ)
	if !ok {
		return false, "no handler"
	}
	t := hotline.NewTransaction(typ, cc.ID, fields...)
	err := guard(func() error {
		for _, r := range h(cc, &t) {
			if r.IsReply == 1 && r.ID == t.ID {
				if r.ErrorCode == [4]byte{} {
					acked = true
				} else {
					note = "error reply: " + string(r.GetField(hotline.FieldError).Data)
				}
			}
		}
		return nil
	})
	if err != nil {
		return false, err.Error()
	}
	if !acked && note == "" {
		note = "no reply"
	}
	return acked, note
}

type probe struct {
	kind string
	run  func(srv *hotline.Server, st *Stores, cc *hotline.ClientConn) (upd map[string]any, acked bool, note string)
}

func (rc *runCtx) probesFor(store string, hint Update) []probe {
	switch store {
	case "bans":
		return []probe{{"ban_add", func(srv *hotline.Server, st *Stores, cc *hotline.ClientConn) (map[string]any, bool, string) {
			target := &hotline.ClientConn{Connection: nopConn{}, RemoteAddr: probeIP + ":5500", UserName: []byte("victim"), Icon: []byte{0, 2},
				Account: &hotline.Account{Login: "zz-victim"}, Server: srv, Logger: discardLogger()}
			srv.ClientMgr.Add(target)
			a, n := ask(srv, cc, hotline.TranDisconnectUser, hotline.NewField(hotline.FieldUserID, target.ID[:]), hotline.NewField(hotline.FieldOptions, []byte{0, 2}))
			return map[string]any{"kind": "ban_add", "store": "bans", "ip": probeIP, "t": rc.in.id("until:" + UntilCanon(nil))}, a, n
		}}}
	case "board":
		return []probe{{"board_post", func(srv *hotline.Server, st *Stores, cc *hotline.ClientConn) (map[string]any, bool, string) {
			a, n := ask(srv, cc, hotline.TranOldPostNews, hotline.NewField(hotline.FieldData, []byte(probeMarker+" posted after the restart")))
			return map[string]any{"kind": "board_post", "store": "board", "p": rc.in.id("chunk:" + probeMarker)}, a, n
		}}}
	case "news":
		return []probe{{"news", func(srv *hotline.Server, st *Stores, cc *hotline.ClientConn) (map[string]any, bool, string) {
			l := Loaded{}
			walkNews(st.News.ThreadedNews.Categories, nil, &l, 0)
			for _, c := range l.Cats {
				if c.Type == 3 {
					art := hotline.NewsArtData{Title: probePrefix + " article", Poster: string(cc.UserName), Data: "posted after the restart"}
					a, n := ask(srv, cc, hotline.TranPostNewsArt, hotline.NewField(hotline.FieldNewsPath, newsPathField(c.Path)),
						hotline.NewField(hotline.FieldNewsArtID, []byte{0, 0, 0, 0}), hotline.NewField(hotline.FieldNewsArtTitle, []byte(art.Title)),
						hotline.NewField(hotline.FieldNewsArtData, []byte(art.Data)))
					return map[string]any{"kind": "news_post", "store": "news", "path": c.Path, "parent": 0, "r": rc.in.id("art:" + ArtCanon(art))}, a, n
				}
			}
			name := probePrefix + "-cat"
			a, n := ask(srv, cc, hotline.TranNewNewsCat, hotline.NewField(hotline.FieldNewsPath, newsPathField(nil)), hotline.NewField(hotline.FieldNewsCatName, []byte(name)))
			return map[string]any{"kind": "news_cat", "store": "news", "path": []string{}, "name": name, "type": 3}, a, n
		}}}
	case "accts":
		pick := func(st *Stores) string {
			var logins []string
			for _, a := range st.AM.List() {
				logins = append(logins, a.Login)
			}
			sort.Strings(logins)
			for _, want := range []string{hint.NewLogin, hint.Login} {
				for _, l := range logins {
					if l == want && l != "" {
						return l
					}
				}
			}
			for _, l := range logins {
				if l != "" {
					return l
				}
			}
			return ""
		}
		acc := hotline.AccessBitmap{0x60, 0x70, 0x0c, 0x20, 0x03, 0x80, 0, 0}
		return []probe{
			{"acct_create", func(srv *hotline.Server, st *Stores, cc *hotline.ClientConn) (map[string]any, bool, string) {
				login, name := probePrefix+"-new", "created after the restart"
				a, n := ask(srv, cc, hotline.TranNewUser, hotline.NewField(hotline.FieldUserLogin, obfuscate(login)), hotline.NewField(hotline.FieldUserName, []byte(name)),
					hotline.NewField(hotline.FieldUserPassword, []byte("pw")), hotline.NewField(hotline.FieldUserAccess, acc[:]))
				return map[string]any{"kind": "acct_create", "store": "accts", "login": login, "r": rc.in.id("acct:" + AcctCanon(name, acc, maskedPassword))}, a, n
			}},
			{"acct_update", func(srv *hotline.Server, st *Stores, cc *hotline.ClientConn) (map[string]any, bool, string) {
				login := pick(st)
				if login == "" {
					return nil, false, "no account"
				}
				old := st.AM.Get(login)
				name := "updated after the restart"
				a, n := ask(srv, cc, hotline.TranSetUser, hotline.NewField(hotline.FieldUserLogin, obfuscate(login)), hotline.NewField(hotline.FieldUserName, []byte(name)),
					hotline.NewField(hotline.FieldUserPassword, []byte{0}), hotline.NewField(hotline.FieldUserAccess, acc[:]))
				return map[string]any{"kind": "acct_update", "store": "accts", "login": login, "r": rc.in.id("acct:" + AcctCanon(name, acc, canonPassword(login, old.Password)))}, a, n
			}},
			{"acct_rename", func(srv *hotline.Server, st *Stores, cc *hotline.ClientConn) (map[string]any, bool, string) {
				login := pick(st)
				if login == "" {
					return nil, false, "no account"
				}
				to, name := probePrefix+"-ren", "renamed after the restart"
				sub := [][]byte{fieldBytes(hotline.NewField(hotline.FieldData, obfuscate(login))), fieldBytes(hotline.NewField(hotline.FieldUserLogin, obfuscate(to))),
					fieldBytes(hotline.NewField(hotline.FieldUserName, []byte(name))), fieldBytes(hotline.NewField(hotline.FieldUserPassword, []byte{0})),
					fieldBytes(hotline.NewField(hotline.FieldUserAccess, acc[:]))}
				data := []byte{0, byte(len(sub))}
				for _, s := range sub {
					data = append(data, s...)
				}
				a, n := ask(srv, cc, hotline.TranUpdateUser, hotline.NewField(hotline.FieldData, data))
				return map[string]any{"kind": "acct_rename", "store": "accts", "login": login, "to": to, "r": rc.in.id("acct:" + AcctCanon(name, acc, maskedPassword))}, a, n
			}},
		}
	}
	return nil
}

// probe runs every probe of the store on its own copy of the crashed directory.
func (rc *runCtx) probe(v *VFS, store string, hint Update) ([]map[string]any, error) {
	out := []map[string]any{}
	for _, p := range rc.probesFor(store, hint) {
		d, err := os.MkdirTemp(rc.scratch, "pr-")
		if err != nil {
			return nil, err
		}
		if err := v.Dump(d); err != nil {
			os.RemoveAll(d)
			return nil, err
		}
		srv, st, cc, err := restart(d)
		if err != nil { // the crash point itself is already reported for not loading
			os.RemoveAll(d)
			return out, nil
		}
		upd, acked, note := p.run(srv, st, cc)
		if upd != nil {
			l := LoadAll(d, rc.probes) // the second restart
			rc.nload++
			rc.nprobe++
			out = append(out, map[string]any{"upd": upd, "acked": acked, "note": strings.ReplaceAll(note, "\n", " "), "crash": rc.project(l, "after-probe")})
		}
		os.RemoveAll(d)
	}
	return out, nil
}
