package persist

import (
	"bufio"
	"encoding/json"
	"flag"
	"fmt"
	"math/rand"
	"os"
	"strconv"
)

// Run dispatches the sub-commands of vh-persist.
func Run(args []string) error {
	if len(args) == 0 {
		return fmt.Errorf("usage: vh-persist plan|seed|probe|record|materialise|kill [flags]")
	}
	switch args[0] {
	case "plan":
		return runPlan(args[1:])
	case "seed":
		return runSeed(args[1:])
	case "probe":
		return runProbe(args[1:])
	case "record":
		return runRecord(args[1:])
	case "materialise":
		return runMaterialise(args[1:])
	case "kill":
		return runKill(args[1:])
	}
	return fmt.Errorf("unknown sub-command %q", args[0])
}

func seedFromEnv() int64 {
	n, err := strconv.ParseInt(os.Getenv("VERIF_SEED"), 10, 64)
	if err != nil {
		return 1
	}
	return n
}

// plan: symbolic scripts (TLC) + seeded random symbolic scripts -> concrete scripts.
func runPlan(args []string) error {
	fs := flag.NewFlagSet("plan", flag.ContinueOnError)
	tlc := fs.String("tlc", "", "symbolic scripts emitted by TLC (ndjson), optional")
	nrand := fs.Int("rand", 0, "number of additional seeded random scripts")
	length := fs.Int("len", 12, "updates per random script")
	nshrink := fs.Int("shrink", 1, "number of grow-then-shrink scripts")
	big := fs.Bool("big", false, "large payloads")
	out := fs.String("out", "scripts.ndjson", "concrete scripts (ndjson)")
	if err := fs.Parse(args); err != nil {
		return err
	}
	seed := seedFromEnv()
	var syms []SymScript
	if *tlc != "" {
		s, err := ReadSymScripts(*tlc)
		if err != nil {
			return err
		}
		syms = append(syms, s...)
	}
	r := rand.New(rand.NewSource(seed*1000003 + 17))
	for i := 0; i < *nshrink; i++ {
		syms = append(syms, ShrinkSym(r))
	}
	for i := 0; i < *nrand; i++ {
		syms = append(syms, RandomSym(r, *length))
	}
	f, err := os.Create(*out)
	if err != nil {
		return err
	}
	w := bufio.NewWriter(f)
	for i, s := range syms {
		b, err := json.Marshal(Expand(s, i+1, seed, *big || (s.Src == "rand" && i%3 == 0)))
		if err != nil {
			return err
		}
		w.Write(b)
		w.WriteByte('\n')
	}
	if err := w.Flush(); err != nil {
		return err
	}
	return f.Close()
}

func findRun(scripts []Script, run int) (*Script, error) {
	for i := range scripts {
		if scripts[i].Run == run {
			return &scripts[i], nil
		}
	}
	return nil, fmt.Errorf("no script with run %d", run)
}

func runSeed(args []string) error {
	fs := flag.NewFlagSet("seed", flag.ContinueOnError)
	scripts := fs.String("scripts", "", "concrete scripts")
	run := fs.Int("run", 1, "run")
	dir := fs.String("dir", "", "config directory to create")
	if err := fs.Parse(args); err != nil {
		return err
	}
	all, err := ReadScripts(*scripts)
	if err != nil {
		return err
	}
	sc, err := findRun(all, *run)
	if err != nil {
		return err
	}
	return Seed(*dir, sc.Init)
}
