package persist

import (
	"bufio"
	"crypto/sha256"
	"encoding/hex"
	"encoding/json"
	"flag"
	"fmt"
	"math/rand"
	"os"
	"path/filepath"
	"sort"
	"strings"
	"sync"
)

// ---- canonicalisation helpers (no expectations: only names for values) -----------------------------------------

type interner struct{ m map[string]int }

func (in *interner) id(s string) int {
	if v, ok := in.m[s]; ok {
		return v
	}
	v := len(in.m) + 1
	in.m[s] = v
	return v
}

// FileRec says which store reads a path: role "final" = a path a constructor reads (MessageBoard.txt,
// ThreadedNews.yaml, Banlist.yaml, Users/*.yaml), "tmp" = another file next to it, "other" = anything else.
type FileRec struct {
	St   string `json:"st"`
	Key  string `json:"key"`
	Role string `json:"role"`
	Raw  string `json:"raw"`
}

func Classify(rel string) FileRec {
	r := FileRec{St: "other", Key: "-", Role: "other", Raw: rel}
	switch rel {
	case BoardFile:
		return FileRec{"board", "-", "final", rel}
	case NewsFile:
		return FileRec{"news", "-", "final", rel}
	case BansFile:
		return FileRec{"bans", "-", "final", rel}
	}
	if d, f := filepath.Split(rel); d == UsersDir+"/" {
		if strings.HasSuffix(f, ".yaml") { // filepath.Glob(Users/*.yaml)
			return FileRec{"accts", strings.TrimSuffix(f, ".yaml"), "final", rel}
		}
		k := f
		if i := strings.Index(f, ".yaml"); i >= 0 {
			k = f[:i]
		}
		return FileRec{"accts", k, "tmp", rel}
	}
	switch {
	case strings.HasPrefix(rel, BoardFile):
		return FileRec{"board", "-", "tmp", rel}
	case strings.HasPrefix(rel, NewsFile):
		return FileRec{"news", "-", "tmp", rel}
	case strings.HasPrefix(rel, BansFile):
		return FileRec{"bans", "-", "tmp", rel}
	}
	return r
}

func openMode(fl []string) string {
	switch {
	case hasFlag(fl, "O_RDONLY"):
		return "read"
	case hasFlag(fl, "O_TRUNC"):
		return "trunc"
	case hasFlag(fl, "O_CREAT") && hasFlag(fl, "O_EXCL"):
		return "excl"
	case hasFlag(fl, "O_APPEND"):
		return "append"
	}
	return "plain"
}

// ---- one run ------------------------------------------------------------------------------------------------------

type runCtx struct {
	sc      Script
	in      *interner
	chunks  []string // known board chunks, longest first
	probes  []string
	scratch string
	cache   map[string]map[string]any
	nload   int
	pts     int
	// continuation after a crash
	hist          map[string][]map[string]any // "<update>/<call index|end>" -> observations of histories reaching it
	histSeen      map[string]bool
	histN         int
	histPts       int
	histAbandoned int
	nprobe        int
	probed        map[string]bool
}

func (rc *runCtx) lexBoard(text string) []int {
	out := []int{}
	for len(text) > 0 {
		hit := ""
		for _, c := range rc.chunks {
			if strings.HasPrefix(text, c) {
				hit = c
				break
			}
		}
		if hit == "" {
			// a post made by a crash-history probe through the real handler ("From probe (<now>): [[probe]] ...\r"):
			// the segment up to the next known chunk
			end := len(text)
			for _, c := range rc.chunks {
				if i := strings.Index(text, c); i > 0 && i < end {
					end = i
				}
			}
			if seg := text[:end]; strings.Contains(seg, probeMarker) && strings.HasSuffix(seg, "\r") {
				out = append(out, rc.in.id("chunk:"+probeMarker))
				text = text[end:]
				continue
			}
			s := sha256.Sum256([]byte(text))
			out = append(out, rc.in.id("junk:"+hex.EncodeToString(s[:8])))
			break
		}
		out = append(out, rc.in.id("chunk:"+hit))
		text = text[len(hit):]
	}
	return out
}

func okRec(l Loaded, st string) (bool, string) {
	e, bad := l.Err[st]
	return !bad, e
}

// observe loads the directory state with the real constructors and names what they hold.
func (rc *runCtx) observe(v *VFS) (map[string]any, error) {
	key := v.Key()
	if o, ok := rc.cache[key]; ok {
		return o, nil
	}
	d, err := os.MkdirTemp(rc.scratch, "cp-")
	if err != nil {
		return nil, err
	}
	defer os.RemoveAll(d)
	if err := v.Dump(d); err != nil {
		return nil, err
	}
	l := LoadAll(d, rc.probes)
	rc.nload++
	obs := rc.project(l, key)
	rc.cache[key] = obs
	return obs, nil
}

// continueFrom explores the histories "the process is killed at this crash point, the server restarts, and the next
// update of the same store is performed": the recorded system calls that follow the killed update are re-executed on
// the crashed directory (other stores' updates in between are replayed without being observed), and the directory is
// loaded with the real constructors before every call of that next update and after it.  If a recorded call cannot
// have the recorded outcome on the crashed directory (O_EXCL on an existing name, rename of an absent name, ...) the
// real code would have taken another path: the history is abandoned.
func (rc *runCtx) continueFrom(crashed *VFS, evs []Sys, at int, j int, origin map[string]any, recObs map[string]any) error {
	store := rc.sc.Updates[j].Store
	for _, st := range []string{"board", "news", "accts", "bans"} {
		if ok, _ := recObs[st].(map[string]any)["ok"].(bool); !ok {
			return nil
		}
	}
	crashed.fds = map[int]*fdesc{}
	dk := fmt.Sprintf("%d/%s", j, crashed.Key())
	if rc.histSeen[dk] {
		return nil
	}
	rc.histSeen[dk] = true
	// skip what the dead process never executed
	i := at
	for ; i < len(evs); i++ {
		if evs[i].Mark != "" && strings.HasPrefix(evs[i].Mark, "E ") {
			break
		}
	}
	cur, target, n := -1, -1, 0
	rec := func(key string) error {
		o, err := rc.observe(crashed)
		if err != nil {
			return err
		}
		h := map[string]any{"crash": o, "rec": recObs[store].(map[string]any)["val"]}
		for k, v := range origin {
			h[k] = v
		}
		rc.hist[key] = append(rc.hist[key], h)
		rc.histPts++
		return nil
	}
	for i++; i < len(evs); i++ {
		e := evs[i]
		if e.Mark != "" {
			f := strings.SplitN(e.Mark, " ", 3)
			switch f[0] {
			case "B":
				fmt.Sscan(f[1], &cur)
				n = 0
				if target == -1 && cur >= 0 && cur < len(rc.sc.Updates) && rc.sc.Updates[cur].Store == store {
					target = cur
					rc.histN++
				}
			case "E":
				if cur == target && target != -1 {
					return rec(fmt.Sprintf("%d/end", target))
				}
				cur = -1
			}
			continue
		}
		if cur == target && target != -1 {
			if err := rec(fmt.Sprintf("%d/%d", target, n)); err != nil {
				return err
			}
		}
		if err := crashed.Apply(e, -1); err != nil {
			rc.histAbandoned++
			return nil
		}
		n++
	}
	return nil
}

// project names what the constructors hold (canonical, comparable values; ids for payloads).
func (rc *runCtx) project(l Loaded, key string) map[string]any {
	obs := map[string]any{"key": key}
	ok, e := okRec(l, "board")
	obs["board"] = map[string]any{"ok": ok, "err": e, "val": rc.lexBoard(l.Board)}
	cats, arts := [][]any{}, [][]any{}
	for _, c := range l.Cats {
		cats = append(cats, []any{c.Path, c.Type})
	}
	for _, a := range l.Arts {
		arts = append(arts, []any{a.Path, a.ID, rc.in.id("art:" + a.Canon)})
	}
	ok, e = okRec(l, "news")
	obs["news"] = map[string]any{"ok": ok, "err": e, "val": map[string]any{"cats": cats, "arts": arts}}
	accts := [][]any{}
	logins := make([]string, 0, len(l.Accts))
	for k := range l.Accts {
		logins = append(logins, k)
	}
	sort.Strings(logins)
	for _, k := range logins {
		accts = append(accts, []any{k, rc.in.id("acct:" + l.Accts[k])})
	}
	ok, e = okRec(l, "accts")
	obs["accts"] = map[string]any{"ok": ok, "err": e, "val": accts}
	bans := [][]any{}
	ips := make([]string, 0, len(l.Bans))
	for k := range l.Bans {
		ips = append(ips, k)
	}
	sort.Strings(ips)
	for _, k := range ips {
		bans = append(bans, []any{k, rc.in.id("until:" + l.Bans[k])})
	}
	ok, e = okRec(l, "bans")
	obs["bans"] = map[string]any{"ok": ok, "err": e, "val": bans}
	return obs
}

func (rc *runCtx) updRec(u Update) (map[string]any, error) {
	m := map[string]any{"kind": u.Kind, "store": u.Store}
	switch u.Kind {
	case "board_post":
		m["p"] = rc.in.id("chunk:" + u.Text)
	case "ban_add":
		t, err := untilOf(u.Until)
		if err != nil {
			return nil, err
		}
		m["ip"], m["t"] = u.IP, rc.in.id("until:"+UntilCanon(t))
	case "acct_create", "acct_update":
		a := accountOf(*u.Acct)
		m["login"], m["r"] = u.Login, rc.in.id("acct:"+AcctCanon(a.Name, a.Access, a.Password))
	case "acct_rename":
		a := accountOf(*u.Acct)
		m["login"], m["to"], m["r"] = u.Login, u.NewLogin, rc.in.id("acct:"+AcctCanon(a.Name, a.Access, a.Password))
	case "acct_delete":
		m["login"] = u.Login
	case "news_cat":
		m["path"], m["name"], m["type"] = u.Path, u.Name, u.Type
	case "news_post":
		a := articleOf(*u.Art)
		a.ParentArt = [4]byte{byte(u.Parent >> 24), byte(u.Parent >> 16), byte(u.Parent >> 8), byte(u.Parent)}
		m["path"], m["parent"], m["r"] = u.Path, u.Parent, rc.in.id("art:"+ArtCanon(a))
	case "news_delart":
		m["path"], m["id"] = u.Path, u.ID
	case "news_delitem":
		m["path"] = u.Path
	default:
		return nil, fmt.Errorf("unknown kind %q", u.Kind)
	}
	if p, ok := m["path"].([]string); ok && p == nil {
		m["path"] = []string{}
	}
	return m, nil
}

// KillPoint addresses one syscall boundary for a real kill: the When-th call named Name entered by the thread that
// performs the updates (strace counts injections per thread and per call name).
type KillPoint struct {
	Run     int    `json:"run"`
	U       int    `json:"u"`
	I       int    `json:"i"`
	Kind    string `json:"kind"`
	Call    string `json:"call"`
	Name    string `json:"name"`
	When    int    `json:"when"`
	Stratum string `json:"stratum"`
}

type runResult struct {
	histN, histPts, histAbandoned int
	nprobe                        int
	leftover                      int // crash points at which a temp file exists next to the final files
	events                        []map[string]any
	kills                         []KillPoint
	points                        int
	loads                         int
	calls                         map[string]int
}

var denseCuts bool

// prefix lengths of a write at which the process is killed: {0, 1, half, len-1}; dense adds 2, the quartiles, len-2
func cutsOf(n int) []int {
	seen := map[int]bool{}
	var out []int
	ks := []int{0, 1, n / 2, n - 1}
	if denseCuts {
		ks = append(ks, 2, n/4, 3*n/4, n-2)
	}
	for _, k := range ks {
		if k >= 0 && k < n && !seen[k] {
			seen[k] = true
			out = append(out, k)
		}
	}
	sort.Ints(out)
	return out
}

var cont = true

func materialiseRun(sc Script, recDir, scratch string) (*runResult, error) {
	rdir := filepath.Join(recDir, fmt.Sprintf("run%d", sc.Run))
	cfg := filepath.Join(rdir, "config")
	evs, err := ParseStrace(filepath.Join(rdir, "strace.log"), cfg, filepath.Join(rdir, "mark"))
	if err != nil {
		return nil, err
	}
	v, err := LoadDir(filepath.Join(rdir, "init"))
	if err != nil {
		return nil, err
	}
	rc := &runCtx{sc: sc, in: &interner{m: map[string]int{}}, scratch: scratch, cache: map[string]map[string]any{},
		hist: map[string][]map[string]any{}, histSeen: map[string]bool{}, probed: map[string]bool{}}
	// probes: every address of the script and each of its proper prefixes
	ps := map[string]bool{}
	addIP := func(ip string) {
		for i := 1; i <= len(ip); i++ {
			ps[ip[:i]] = true
		}
	}
	addIP(probeIP)
	for ip := range sc.Init.Bans {
		addIP(ip)
	}
	for _, u := range sc.Updates {
		if u.Kind == "ban_add" {
			addIP(u.IP)
		}
	}
	for ip := range ps {
		rc.probes = append(rc.probes, ip)
	}
	sort.Strings(rc.probes)

	// one thread performs everything on the config directory (strace's injection counter is per thread)
	tid := -1
	for _, e := range evs {
		if tid == -1 {
			tid = e.Tid
		} else if tid != e.Tid {
			return nil, fmt.Errorf("run %d: config directory touched by two threads (%d, %d): log line %d", sc.Run, tid, e.Tid, e.Line)
		}
	}

	res := &runResult{calls: map[string]int{}}
	emit := func(m map[string]any) { res.events = append(res.events, m) }
	cur := -1 // update in progress
	started := false
	idx := 0
	var beginEv map[string]any
	probesAt := func(st *VFS, u int) ([]map[string]any, error) {
		store := sc.Updates[u].Store
		k := store + "/" + st.Key()
		if !cont || rc.probed[k] {
			return []map[string]any{}, nil
		}
		rc.probed[k] = true
		return rc.probe(st, store, sc.Updates[u])
	}
	histOf := func(key string) []map[string]any {
		if h := rc.hist[key]; h != nil {
			return h
		}
		return []map[string]any{}
	}
	for ei, e := range evs {
		if e.Mark != "" {
			f := strings.SplitN(e.Mark, " ", 3)
			switch f[0] {
			case "S":
				// the stores are loaded: the world as the real constructors see it; the first known board chunk is
				// whatever the board store serves initially
				d, err := os.MkdirTemp(scratch, "w-")
				if err != nil {
					return nil, err
				}
				if err := v.Dump(d); err != nil {
					return nil, err
				}
				l := LoadAll(d, rc.probes)
				os.RemoveAll(d)
				if len(l.Err) > 0 {
					return nil, fmt.Errorf("run %d: initial directory does not load: %v", sc.Run, l.Err)
				}
				if l.Board != "" {
					rc.chunks = append(rc.chunks, l.Board)
				}
				for _, u := range sc.Updates {
					if u.Kind == "board_post" && u.Text != "" {
						rc.chunks = append(rc.chunks, u.Text)
					}
				}
				sort.SliceStable(rc.chunks, func(i, j int) bool { return len(rc.chunks[i]) > len(rc.chunks[j]) })
				obs, err := rc.observe(v)
				if err != nil {
					return nil, err
				}
				files := []map[string]any{}
				names := make([]string, 0, len(v.names))
				for k := range v.names {
					names = append(names, k)
				}
				sort.Strings(names)
				for _, k := range names {
					s := sha256.Sum256(v.names[k].data)
					files = append(files, map[string]any{"file": Classify(k), "cid": rc.in.id("bytes:" + hex.EncodeToString(s[:])), "empty": len(v.names[k].data) == 0})
				}
				val := map[string]any{}
				for _, st := range []string{"board", "news", "accts", "bans"} {
					val[st] = obs[st].(map[string]any)["val"]
				}
				emit(map[string]any{"op": "world", "run": sc.Run, "val": val, "files": files, "src": sc.Src})
				started = true
			case "B":
				if !started || cur != -1 {
					return nil, fmt.Errorf("run %d: marker %q out of order", sc.Run, e.Mark)
				}
				fmt.Sscan(f[1], &cur)
				if cur < 0 || cur >= len(sc.Updates) {
					return nil, fmt.Errorf("run %d: marker %q names no update", sc.Run, e.Mark)
				}
				ur, err := rc.updRec(sc.Updates[cur])
				if err != nil {
					return nil, err
				}
				beginEv = map[string]any{"op": "begin", "run": sc.Run, "u": cur, "upd": ur}
				emit(beginEv)
				idx = 0
			case "E":
				var j int
				fmt.Sscan(f[1], &j)
				if j != cur {
					return nil, fmt.Errorf("run %d: marker %q does not close update %d", sc.Run, e.Mark, cur)
				}
				obs, err := rc.observe(v)
				if err != nil {
					return nil, err
				}
				res.points++
				ok := len(f) > 2 && f[2] == "ok"
				errText := ""
				if !ok && len(f) > 2 {
					errText = strings.TrimPrefix(f[2], "err ")
				}
				prs, err := probesAt(v, cur)
				if err != nil {
					return nil, err
				}
				emit(map[string]any{"op": "end", "run": sc.Run, "u": cur, "ok": ok, "err": errText, "crash": obs, "probes": prs,
					"hist": histOf(fmt.Sprintf("%d/end", cur))})
				cur = -1
			default:
				return nil, fmt.Errorf("run %d: unknown marker %q", sc.Run, e.Mark)
			}
			continue
		}
		if !started {
			// start-up loads of the constructors: they must not change anything
			if e.Call == "write" || e.Call == "rename" || e.Call == "unlink" || e.Call == "link" || (e.Call == "open" && e.OK() && openMode(e.Flags) != "read") {
				return nil, fmt.Errorf("run %d: the initial load modifies the config directory (log line %d: %s %s)", sc.Run, e.Line, e.Name, e.Path)
			}
			if err := v.Apply(e, -1); err != nil {
				return nil, err
			}
			continue
		}
		if cur == -1 {
			if e.Call == "close" {
				if err := v.Apply(e, -1); err != nil {
					return nil, err
				}
				continue
			}
			return nil, fmt.Errorf("run %d: call outside any update (log line %d: %s %s)", sc.Run, e.Line, e.Name, e.Path)
		}
		// crash point: the process dies at the entry of this call
		obs, err := rc.observe(v)
		if err != nil {
			return nil, err
		}
		res.points++
		for k := range v.names {
			if Classify(k).Role == "tmp" {
				res.leftover++
				break
			}
		}
		fr := Classify(e.Path)
		to := fr
		if e.Path2 != "" {
			to = Classify(e.Path2)
		}
		mode := ""
		if e.Call == "open" {
			mode = openMode(e.Flags)
		}
		sev := map[string]any{"op": "sys", "run": sc.Run, "u": cur, "i": idx, "call": e.Call, "mode": mode,
			"app": hasFlag(e.Flags, "O_APPEND"), "creat": hasFlag(e.Flags, "O_CREAT"), "file": fr, "to": to, "fd": e.FD, "cid": 0, "n": 0, "ok": e.OK(), "errno": e.Errno, "len": e.Len,
			"crash": obs, "cuts": []any{}, "line": e.Line, "hist": histOf(fmt.Sprintf("%d/%d", cur, idx))}
		if sev["probes"], err = probesAt(v, cur); err != nil {
			return nil, err
		}
		if cont {
			if err := rc.continueFrom(v.Clone(), evs, ei, cur, map[string]any{"j": cur, "ci": idx, "cut": -1}, obs); err != nil {
				return nil, err
			}
		}
		if e.Call == "write" && e.OK() {
			n := int(e.Ret)
			s := sha256.Sum256(e.Data[:n])
			sev["cid"], sev["n"] = rc.in.id("bytes:"+hex.EncodeToString(s[:])), n
			var cuts []any
			for _, k := range cutsOf(n) {
				c := v.Clone()
				if err := c.Apply(e, k); err != nil {
					return nil, err
				}
				o, err := rc.observe(c)
				if err != nil {
					return nil, err
				}
				res.points++
				prs, err := probesAt(c, cur)
				if err != nil {
					return nil, err
				}
				cuts = append(cuts, map[string]any{"k": k, "crash": o, "probes": prs})
				if cont && k > 0 {
					if err := rc.continueFrom(c, evs, ei, cur, map[string]any{"j": cur, "ci": idx, "cut": k}, o); err != nil {
						return nil, err
					}
				}
			}
			if cuts != nil {
				sev["cuts"] = cuts
			}
		}
		emit(sev)
		res.calls[e.Call+mode]++
		res.kills = append(res.kills, KillPoint{Run: sc.Run, U: cur, I: idx, Kind: sc.Updates[cur].Kind, Call: e.Call, Name: e.Name,
			When: e.Seq, Stratum: fmt.Sprintf("%s/%d/%s%s", sc.Updates[cur].Kind, idx, e.Call, mode)})
		if err := v.Apply(e, -1); err != nil {
			return nil, err
		}
		idx++
	}
	if cur != -1 || !started {
		return nil, fmt.Errorf("run %d: the log ends inside update %d", sc.Run, cur)
	}
	// the re-execution must end in the directory the real run left behind
	real, err := DirListing(cfg)
	if err != nil {
		return nil, err
	}
	if strings.Join(real, "\n") != strings.Join(v.Listing(), "\n") {
		return nil, fmt.Errorf("run %d: re-executing the syscall log does not reproduce the final directory:\nreal: %v\nre-executed: %v", sc.Run, real, v.Listing())
	}
	res.loads = rc.nload
	res.histN, res.histPts, res.histAbandoned = rc.histN, rc.histPts, rc.histAbandoned
	res.nprobe = rc.nprobe
	return res, nil
}

// materialise: strace logs -> crash points -> real constructors -> event log for Trace_Persist (+ kill plan).
func runMaterialise(args []string) error {
	fs := flag.NewFlagSet("materialise", flag.ContinueOnError)
	scripts := fs.String("scripts", "", "concrete scripts")
	rec := fs.String("rec", "", "directory written by `record`")
	out := fs.String("out", "log.ndjson", "event log")
	kills := fs.String("kills", "", "kill plan to write (ndjson)")
	nkills := fs.Int("nkills", 8, "number of boundaries to reproduce with a real kill")
	par := fs.Int("par", 8, "parallel runs")
	fs.BoolVar(&denseCuts, "dense", false, "more prefix lengths per write")
	fs.BoolVar(&cont, "cont", true, "continue after every crash point with the next update of the same store")
	if err := fs.Parse(args); err != nil {
		return err
	}
	all, err := ReadScripts(*scripts)
	if err != nil {
		return err
	}
	scratch, err := os.MkdirTemp(scratchBase(), "mat-")
	if err != nil {
		return err
	}
	defer os.RemoveAll(scratch)
	results := make([]*runResult, len(all))
	errs := make([]error, len(all))
	sem := make(chan struct{}, *par)
	var wg sync.WaitGroup
	for i := range all {
		wg.Add(1)
		sem <- struct{}{}
		go func(i int) {
			defer wg.Done()
			defer func() { <-sem }()
			results[i], errs[i] = materialiseRun(all[i], *rec, scratch)
		}(i)
	}
	wg.Wait()
	for _, e := range errs {
		if e != nil {
			return e
		}
	}
	f, err := os.Create(*out)
	if err != nil {
		return err
	}
	w := bufio.NewWriterSize(f, 1<<20)
	points, loads, nev, leftover := 0, 0, 0, 0
	hN, hP, hA, nPr := 0, 0, 0, 0
	calls := map[string]int{}
	var cands []KillPoint
	for _, r := range results {
		for _, ev := range r.events {
			b, err := json.Marshal(ev)
			if err != nil {
				return err
			}
			w.Write(b)
			w.WriteByte('\n')
			nev++
		}
		points += r.points
		loads += r.loads
		leftover += r.leftover
		hN += r.histN
		hP += r.histPts
		hA += r.histAbandoned
		nPr += r.nprobe
		for k, n := range r.calls {
			calls[k] += n
		}
		cands = append(cands, r.kills...)
	}
	if err := w.Flush(); err != nil {
		return err
	}
	if err := f.Close(); err != nil {
		return err
	}
	if *kills != "" {
		// stratified sample: one boundary per (kind, position, call) class in turn
		rnd := rand.New(rand.NewSource(seedFromEnv()*7919 + 3))
		strata := map[string][]KillPoint{}
		var keys []string
		for _, c := range cands {
			if _, ok := strata[c.Stratum]; !ok {
				keys = append(keys, c.Stratum)
			}
			strata[c.Stratum] = append(strata[c.Stratum], c)
		}
		sort.Strings(keys)
		rnd.Shuffle(len(keys), func(i, j int) { keys[i], keys[j] = keys[j], keys[i] })
		var pick []KillPoint
		for len(pick) < *nkills {
			progress := false
			for _, k := range keys {
				if len(pick) >= *nkills {
					break
				}
				if l := strata[k]; len(l) > 0 {
					j := rnd.Intn(len(l))
					pick = append(pick, l[j])
					strata[k] = append(l[:j:j], l[j+1:]...)
					progress = true
				}
			}
			if !progress {
				break
			}
		}
		kf, err := os.Create(*kills)
		if err != nil {
			return err
		}
		kw := bufio.NewWriter(kf)
		for _, p := range pick {
			b, _ := json.Marshal(p)
			kw.Write(b)
			kw.WriteByte('\n')
		}
		if err := kw.Flush(); err != nil {
			return err
		}
		kf.Close()
	}
	sum, _ := json.Marshal(map[string]any{"runs": len(all), "events": nev, "crash_points": points, "constructor_loads": loads,
		"calls": calls, "kill_candidates": len(cands), "boundaries_with_leftover_temp_file": leftover,
		"continued_histories": hN, "continued_history_observations": hP, "continued_histories_abandoned": hA,
		"handler_probes_after_restart": nPr})
	fmt.Println("SUMMARY " + string(sum))
	return nil
}

func scratchBase() string {
	if d := os.Getenv("VERIF_SCRATCH"); d != "" {
		return d
	}
	return "/var/tmp"
}
