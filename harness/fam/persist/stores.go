package persist

import (
	"encoding/binary"
	"encoding/hex"
	"fmt"
	"io"
	"os"
	"path/filepath"
	"sort"
	"strings"
	"time"

	"github.com/jhalter/mobius/hotline"
	"github.com/jhalter/mobius/verifexport"
	"gopkg.in/yaml.v3"
)

// File names of the stores inside a config directory (cmd/mobius-hotline-server wires exactly these).
const (
	BoardFile = "MessageBoard.txt"
	NewsFile  = "ThreadedNews.yaml"
	BansFile  = "Banlist.yaml"
	UsersDir  = "Users"
)

func accessOf(a []int) hotline.AccessBitmap {
	var b hotline.AccessBitmap
	for i := 0; i < 8 && i < len(a); i++ {
		b[i] = byte(a[i])
	}
	return b
}

func accountOf(a Acct) hotline.Account {
	return hotline.Account{Login: a.Login, Name: a.Name, Password: a.Password, Access: accessOf(a.Access)}
}

func articleOf(a Art) hotline.NewsArtData {
	var d [8]byte
	for i := 0; i < 8 && i < len(a.Date); i++ {
		d[i] = byte(a.Date[i])
	}
	return hotline.NewsArtData{Title: a.Title, Poster: a.Poster, Data: a.Data, Date: d}
}

func untilOf(s string) (*time.Time, error) {
	if s == "" {
		return nil, nil
	}
	t, err := time.Parse(time.RFC3339, s)
	if err != nil {
		return nil, err
	}
	return &t, nil
}

// Seed writes the initial state of a script into an empty config directory.
func Seed(dir string, in Init) error {
	if err := os.MkdirAll(filepath.Join(dir, UsersDir), 0o755); err != nil {
		return err
	}
	if err := os.WriteFile(filepath.Join(dir, BoardFile), []byte(in.Board), 0o644); err != nil {
		return err
	}
	for _, a := range in.Accounts {
		b, err := yaml.Marshal(accountOf(a))
		if err != nil {
			return err
		}
		if err := os.WriteFile(filepath.Join(dir, UsersDir, a.Login+".yaml"), b, 0o644); err != nil {
			return err
		}
	}
	if in.BansFile {
		m := map[string]*time.Time{}
		for ip, u := range in.Bans {
			t, err := untilOf(u)
			if err != nil {
				return err
			}
			m[ip] = t
		}
		b, err := yaml.Marshal(m)
		if err != nil {
			return err
		}
		if err := os.WriteFile(filepath.Join(dir, BansFile), b, 0o644); err != nil {
			return err
		}
	}
	tn := hotline.ThreadedNews{Categories: map[string]hotline.NewsCategoryListData15{}}
	for _, c := range in.Cats {
		m := tn.Categories
		for _, p := range c.Path[:len(c.Path)-1] {
			m = m[p].SubCats
		}
		name := c.Path[len(c.Path)-1]
		m[name] = hotline.NewsCategoryListData15{Name: name, Type: [2]byte{0, byte(c.Type)},
			Articles: map[uint32]*hotline.NewsArtData{}, SubCats: map[string]hotline.NewsCategoryListData15{}}
	}
	for _, a := range in.Arts {
		m := tn.Categories
		for _, p := range a.Path[:len(a.Path)-1] {
			m = m[p].SubCats
		}
		art := articleOf(a.Art)
		binary.BigEndian.PutUint32(art.ParentArt[:], uint32(a.Parent))
		m[a.Path[len(a.Path)-1]].Articles[uint32(a.ID)] = &art
	}
	b, err := yaml.Marshal(&tn)
	if err != nil {
		return err
	}
	return os.WriteFile(filepath.Join(dir, NewsFile), b, 0o644)
}

// Stores are the four real persistent stores of a config directory.
type Stores struct {
	Board *verifexport.FlatNews
	News  *verifexport.ThreadedNewsYAML
	AM    *verifexport.YAMLAccountManager
	Bans  *verifexport.BanFile
}

func guard(f func() error) (err error) {
	defer func() {
		if r := recover(); r != nil {
			err = fmt.Errorf("panic: %v", r)
		}
	}()
	return f()
}

// Open loads every store with its real constructor; errs has one entry per store that did not load.
func Open(dir string) (*Stores, map[string]error) {
	s := &Stores{}
	errs := map[string]error{}
	if err := guard(func() (e error) { s.Board, e = verifexport.NewFlatNews(filepath.Join(dir, BoardFile)); return }); err != nil {
		errs["board"] = err
	}
	if err := guard(func() (e error) { s.News, e = verifexport.NewThreadedNewsYAML(filepath.Join(dir, NewsFile)); return }); err != nil {
		errs["news"] = err
	}
	if err := guard(func() (e error) { s.AM, e = verifexport.NewYAMLAccountManager(filepath.Join(dir, UsersDir)); return }); err != nil {
		errs["accts"] = err
	}
	if err := guard(func() (e error) { s.Bans, e = verifexport.NewBanFile(filepath.Join(dir, BansFile)); return }); err != nil {
		errs["bans"] = err
	}
	return s, errs
}

// Do performs one update through the store's own methods, exactly as the request handlers call them.
func (s *Stores) Do(u Update) error {
	return guard(func() error {
		switch u.Kind {
		case "board_post":
			_, err := s.Board.Write([]byte(u.Text))
			return err
		case "ban_add":
			t, err := untilOf(u.Until)
			if err != nil {
				return err
			}
			return s.Bans.Add(u.IP, t)
		case "acct_create":
			return s.AM.Create(accountOf(*u.Acct))
		case "acct_update", "acct_rename":
			a := accountOf(*u.Acct)
			a.Login = u.Login
			return s.AM.Update(a, u.NewLogin)
		case "acct_delete":
			return s.AM.Delete(u.Login)
		case "news_cat":
			return s.News.CreateGrouping(u.Path, u.Name, [2]byte{0, byte(u.Type)})
		case "news_post":
			return s.News.PostArticle(u.Path, uint32(u.Parent), articleOf(*u.Art))
		case "news_delart":
			return s.News.DeleteArticle(u.Path, uint32(u.ID), false)
		case "news_delitem":
			return s.News.DeleteNewsItem(u.Path)
		}
		return fmt.Errorf("unknown update kind %q", u.Kind)
	})
}

// ---- what the real constructors loaded, as canonical projections ----------------------------------------------

type CatP struct {
	Path []string
	Type int
}

type ArtP struct {
	Path  []string
	ID    int
	Canon string
}

type Loaded struct {
	Err   map[string]string // store -> error text of its constructor (absent = loaded)
	Board string            // the whole board text as the store serves it
	Cats  []CatP
	Arts  []ArtP
	Accts map[string]string // login -> canonical (name, access, password hash)
	Bans  map[string]string // probed address -> canonical expiry; absent = not banned
}

func AcctCanon(name string, access [8]byte, password string) string {
	return fmt.Sprintf("%q|%s|%q", name, hex.EncodeToString(access[:]), password)
}

const maskedPassword = "<masked>"

// canonPassword: accounts created / renamed by a crash-history probe get a freshly salted hash: not comparable.
func canonPassword(login, password string) string {
	if strings.HasPrefix(login, probePrefix) {
		return maskedPassword
	}
	return password
}

func ArtCanon(a hotline.NewsArtData) string {
	if strings.HasPrefix(a.Title, probePrefix) { // posted by a crash-history probe through the handler: the date is "now"
		return fmt.Sprintf("%q|%q|-|%s|%q", a.Title, a.Poster, hex.EncodeToString(a.ParentArt[:]), a.Data)
	}
	return fmt.Sprintf("%q|%q|%s|%s|%q", a.Title, a.Poster, hex.EncodeToString(a.Date[:]), hex.EncodeToString(a.ParentArt[:]), a.Data)
}

func UntilCanon(t *time.Time) string {
	if t == nil {
		return "perm"
	}
	return t.UTC().Format(time.RFC3339Nano)
}

func walkNews(m map[string]hotline.NewsCategoryListData15, prefix []string, l *Loaded, depth int) {
	if depth > 32 {
		return
	}
	names := make([]string, 0, len(m))
	for k := range m {
		names = append(names, k)
	}
	sort.Strings(names)
	for _, k := range names {
		c := m[k]
		p := append(append([]string{}, prefix...), k)
		l.Cats = append(l.Cats, CatP{Path: p, Type: int(binary.BigEndian.Uint16(c.Type[:]))})
		ids := make([]int, 0, len(c.Articles))
		for id := range c.Articles {
			ids = append(ids, int(id))
		}
		sort.Ints(ids)
		for _, id := range ids {
			if a := c.Articles[uint32(id)]; a != nil {
				l.Arts = append(l.Arts, ArtP{Path: p, ID: id, Canon: ArtCanon(*a)})
			} else {
				l.Arts = append(l.Arts, ArtP{Path: p, ID: id, Canon: "<nil>"})
			}
		}
		walkNews(c.SubCats, p, l, depth+1)
	}
}

// LoadAll loads a config directory with the real constructors and projects what they hold.  The directory may be
// modified by the constructors (account migration), so callers pass a throw-away copy.
func LoadAll(dir string, probeIPs []string) Loaded {
	s, errs := Open(dir)
	l := Loaded{Err: map[string]string{}, Accts: map[string]string{}, Bans: map[string]string{}}
	for k, e := range errs {
		l.Err[k] = e.Error()
	}
	if _, bad := errs["board"]; !bad {
		if err := guard(func() error {
			b, err := io.ReadAll(io.LimitReader(s.Board, 1<<26))
			l.Board = string(b)
			return err
		}); err != nil {
			l.Err["board"] = "read: " + err.Error()
		}
	}
	if _, bad := errs["news"]; !bad {
		if err := guard(func() error { walkNews(s.News.ThreadedNews.Categories, nil, &l, 0); return nil }); err != nil {
			l.Err["news"] = "walk: " + err.Error()
		}
	}
	if _, bad := errs["accts"]; !bad {
		if err := guard(func() error {
			for _, a := range s.AM.List() {
				l.Accts[a.Login] = AcctCanon(a.Name, a.Access, canonPassword(a.Login, a.Password))
			}
			return nil
		}); err != nil {
			l.Err["accts"] = "list: " + err.Error()
		}
	}
	if _, bad := errs["bans"]; !bad {
		if err := guard(func() error {
			for _, ip := range probeIPs {
				if banned, until := s.Bans.IsBanned(ip); banned {
					l.Bans[ip] = UntilCanon(until)
				}
			}
			return nil
		}); err != nil {
			l.Err["bans"] = "probe: " + err.Error()
		}
	}
	return l
}
