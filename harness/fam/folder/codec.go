// Package folder is the driver/observer of the C10 check (folder download / folder upload).
//
// It executes scripts (behaviours of spec/MC_Folder.tla, or random larger ones drawn by `vh-folder gen`) against
// the real server: a logged-in client issues the real Download Folder (210) / Upload Folder (213) transaction and
// a reference folder client - written from the protocol document, sharing no code with /repo - talks to the real
// transfer handler over an in-memory connection.  The driver only records what the server did (ndjson, one event
// per protocol step); spec/Trace_Folder.tla decides.
package folder

import (
	"encoding/binary"
	"hash/fnv"
	"strings"
)

// ---- file content: a function of the path below the transfer folder ------------------------------------------

// Content returns the first n bytes of the content belonging to a path (names joined with "/").
func Content(key string, n int) []byte {
	h := fnv.New64a()
	h.Write([]byte(key))
	x := h.Sum64() | 1
	out := make([]byte, n)
	for i := range out {
		x ^= x << 13
		x ^= x >> 7
		x ^= x << 17
		out[i] = byte(x >> 24)
	}
	return out
}

func keyOf(path []string) string { return strings.Join(path, "/") }

// ---- item headers (both directions): size(2) type(2) count(2) { 0 0 len(1) name }* ----------------------------

func encItemHeader(isDir bool, path []string) []byte {
	body := []byte{0, 0}
	if isDir {
		body[1] = 1
	}
	body = append(body, byte(len(path)>>8), byte(len(path)))
	for _, nm := range path {
		body = append(body, 0, 0, byte(len(nm)))
		body = append(body, nm...)
	}
	return append([]byte{byte(len(body) >> 8), byte(len(body))}, body...)
}

type itemHeader struct {
	OK    bool
	Type  int
	Path  []string
	Used  int // bytes of the buffer the header occupies
	Extra int // bytes in the buffer beyond the header
}

// parseItemHeader reads one item header from the start of b.
func parseItemHeader(b []byte) itemHeader {
	h := itemHeader{Type: -1, Path: []string{}, Extra: len(b)}
	if len(b) < 6 {
		return h
	}
	size := int(binary.BigEndian.Uint16(b[0:2]))
	if size < 4 || len(b) < 2+size {
		return h
	}
	body := b[2 : 2+size]
	typ := int(binary.BigEndian.Uint16(body[0:2]))
	cnt := int(binary.BigEndian.Uint16(body[2:4]))
	p := body[4:]
	var path []string
	for i := 0; i < cnt; i++ {
		if len(p) < 3 || len(p) < 3+int(p[2]) {
			return h
		}
		path = append(path, string(p[3:3+int(p[2])]))
		p = p[3+int(p[2]):]
	}
	if len(p) != 0 {
		return h
	}
	if path == nil {
		path = []string{}
	}
	return itemHeader{OK: true, Type: typ, Path: path, Used: 2 + size, Extra: len(b) - 2 - size}
}

// ---- resume data: "RFLT" version(2) rsvd(34) forkCount(2) { fork(4) offset(4) rsvd(8) }* -----------------------

func encResume(offset int) []byte {
	b := make([]byte, 42)
	copy(b, "RFLT")
	b[5] = 1
	b[41] = 2
	e := make([]byte, 16)
	copy(e, "DATA")
	binary.BigEndian.PutUint32(e[4:8], uint32(offset))
	b = append(b, e...)
	m := make([]byte, 16)
	copy(m, "MACR")
	return append(b, m...)
}

// parseResume returns the offset of the DATA fork entry, or -1.
func parseResume(b []byte) int {
	if len(b) < 42 || string(b[0:4]) != "RFLT" {
		return -1
	}
	cnt := int(binary.BigEndian.Uint16(b[40:42]))
	for i := 0; i < cnt; i++ {
		s := 42 + 16*i
		if len(b) < s+16 {
			return -1
		}
		if string(b[s:s+4]) == "DATA" {
			return int(binary.BigEndian.Uint32(b[s+4 : s+8]))
		}
	}
	return -1
}

// ---- flattened file object --------------------------------------------------------------------------------------

// encObjectHeader builds FILP header + INFO fork header + information fork + DATA fork header for dataLen bytes.
func encObjectHeader(name string, dataLen int) []byte {
	b := make([]byte, 0, 160+len(name))
	b = append(b, "FILP"...)
	b = append(b, 0, 1)
	b = append(b, make([]byte, 16)...)
	b = append(b, 0, 2)
	info := make([]byte, 0, 80+len(name))
	info = append(info, "AMAC"...)
	info = append(info, "TEXT"...)
	info = append(info, "ttxt"...)
	info = append(info, make([]byte, 4)...)  // flags
	info = append(info, 0, 0, 1, 0)          // platform flags
	info = append(info, make([]byte, 32)...) // rsvd
	info = append(info, make([]byte, 16)...) // create + modify date
	info = append(info, 0, 0)                // name script
	info = append(info, byte(len(name)>>8), byte(len(name)))
	info = append(info, name...)
	info = append(info, 0, 0) // comment size
	b = append(b, "INFO"...)
	b = append(b, make([]byte, 8)...)
	b = binary.BigEndian.AppendUint32(b, uint32(len(info)))
	b = append(b, info...)
	b = append(b, "DATA"...)
	b = append(b, make([]byte, 8)...)
	b = binary.BigEndian.AppendUint32(b, uint32(dataLen))
	return b
}

type object struct {
	OK       bool
	HdrLen   int    // FILP header .. DATA fork header
	Name     string // name in the information fork
	DataDecl int    // size declared in the DATA fork header
	Data     []byte
	RsrcLen  int // bytes of the resource section (MACR fork header + data), 0 if none
}

// parseObject splits the bytes that followed a size prefix into object header, data fork and resource section.
// resumed: the data fork section is everything after the DATA fork header (its declared size is not relied on).
func parseObject(b []byte, resumed bool) object {
	o := object{Data: []byte{}}
	if len(b) < 24+16 || string(b[0:4]) != "FILP" {
		return o
	}
	forks := int(binary.BigEndian.Uint16(b[22:24]))
	p := 24
	if string(b[p:p+4]) != "INFO" {
		return o
	}
	il := int(binary.BigEndian.Uint32(b[p+12 : p+16]))
	p += 16
	if il < 72 || len(b) < p+il+16 {
		return o
	}
	info := b[p : p+il]
	nl := int(binary.BigEndian.Uint16(info[70:72]))
	if 72+nl > il {
		return o
	}
	o.Name = string(info[72 : 72+nl])
	p += il
	if string(b[p:p+4]) != "DATA" {
		return o
	}
	o.DataDecl = int(binary.BigEndian.Uint32(b[p+12 : p+16]))
	p += 16
	o.HdrLen = p
	rest := b[p:]
	if forks >= 3 && !resumed && o.DataDecl+16 <= len(rest) && string(rest[o.DataDecl:o.DataDecl+4]) == "MACR" {
		o.Data = rest[:o.DataDecl]
		o.RsrcLen = len(rest) - o.DataDecl
	} else {
		o.Data = rest
	}
	o.OK = true
	return o
}
