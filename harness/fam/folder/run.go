package folder

import (
	"bufio"
	"bytes"
	"context"
	"encoding/json"
	"flag"
	"fmt"
	"os"
	"path/filepath"
	"runtime"
	"strings"
	"sync"
	"syscall"
	"time"

	"github.com/jhalter/mobius/hotline"

	"verifharness/sim"
)

// A script is one behaviour: the tree on the server at the start and the protocol steps of the client.
type node struct {
	Path    [][]int `json:"path"`
	Kind    string  `json:"kind"`
	Size    int     `json:"size"`
	Partial bool    `json:"partial"`
}

type step struct {
	Op    string  `json:"op"`
	Path  [][]int `json:"path,omitempty"`
	Act   int     `json:"act,omitempty"`
	K     int     `json:"k,omitempty"`
	Count int     `json:"count,omitempty"`
	Kind  string  `json:"kind,omitempty"`
	Size  int     `json:"size,omitempty"`
	Cut   *int    `json:"cut,omitempty"`
}

type script struct {
	Mode  string `json:"mode"`
	Pre   []node `json:"pre"`
	Steps []step `json:"steps"`
	Loc   *int   `json:"loc,omitempty"` // replay: the location variant of the transfer folder (default: run % 3)
}

func names(p [][]int) []string {
	out := make([]string, len(p))
	for i, nm := range p {
		b := make([]byte, len(nm))
		for j, c := range nm {
			b[j] = byte(c)
		}
		out[i] = string(b)
	}
	return out
}

func ints(p []string) [][]int {
	out := make([][]int, len(p))
	for i, nm := range p {
		out[i] = make([]int, len(nm))
		for j := 0; j < len(nm); j++ {
			out[i][j] = int(nm[j])
		}
	}
	return out
}

const stepTimeout = 20 * time.Second

// xfer is one transfer connection to the real handler.
type xfer struct {
	srv     *hotline.Server
	ref     [4]byte
	ce      *sim.End
	done    chan struct{}
	pending []byte // server bytes received but not yet consumed by the client (upload direction)
}

func startXfer(w *sim.World, ref []byte, addr string) *xfer {
	ce, se := sim.Pipe()
	x := &xfer{srv: w.Srv, ce: ce, done: make(chan struct{})}
	copy(x.ref[:], ref)
	go func() {
		defer close(x.done)
		defer se.Close() // the listener closes the socket when the handler returns
		_ = w.Srv.VerifHandleFileTransfer(context.Background(), se, addr)
	}()
	pre := append([]byte("HTXF"), ref...)
	pre = append(pre, 0, 0, 0, 0, 0, 0, 0, 0)
	_, _ = ce.Write(pre)
	return x
}

// finished: the handler has left its body (the transfer is removed from the manager in the handler's deferred
// function, before the 3 s courtesy sleep).  Everything it wrote is in the pipe by then.
func (x *xfer) finished() bool {
	return x.srv.FileTransferMgr.Get(hotline.FileTransferID(x.ref)) == nil
}

// quiesce waits until the server can do nothing more without input from us: it is blocked reading an empty
// connection, or its handler has finished.  Returns everything it sent meanwhile.  State based, not time based;
// the timeout only bounds a hang ("stalled").
func (x *xfer) quiesce() (data []byte, state string) {
	deadline := time.Now().Add(stepTimeout)
	for i := 0; ; i++ {
		blocked := x.ce.PeerBlocked()
		fin := !blocked && x.finished()
		if blocked || fin {
			b, _ := x.ce.TakeAll()
			if fin {
				return b, "finished"
			}
			return b, "waiting"
		}
		if time.Now().After(deadline) {
			b, _ := x.ce.TakeAll()
			return b, "stalled"
		}
		if i < 50 {
			time.Sleep(20 * time.Microsecond)
		} else {
			time.Sleep(200 * time.Microsecond)
		}
	}
}

func (x *xfer) waitFinished() string {
	deadline := time.Now().Add(stepTimeout)
	for !x.finished() {
		if time.Now().After(deadline) {
			return "stalled"
		}
		time.Sleep(100 * time.Microsecond)
	}
	return "finished"
}

type worker struct {
	w     *sim.World
	c     *sim.Client
	fname string   // name of the transfer folder of the current script
	fpath []string // path items below the file root where it lives
}

type ev = map[string]any

func (wk *worker) runScript(run int, sc script) []ev {
	evs := []ev{}
	runDir := fmt.Sprintf("r%d", run)
	// where the transfer folder lives (the model is relative to it; the statement wants item paths relative to the
	// requested folder wherever that is): directly below the run's directory, below an ancestor of the same name, or
	// named like the file root's own last component
	wk.fname, wk.fpath = "F", []string{runDir}
	loc := run % 3
	if sc.Loc != nil {
		loc = *sc.Loc
	}
	switch loc {
	case 1:
		wk.fpath = []string{runDir, "F"}
	case 2:
		wk.fname = filepath.Base(wk.w.Root)
	}
	F := filepath.Join(wk.w.Root, filepath.Join(wk.fpath...), wk.fname)
	pre := []ev{}
	for _, n := range sc.Pre {
		pre = append(pre, ev{"path": n.Path, "kind": n.Kind, "size": n.Size, "partial": n.Partial})
	}
	evs = append(evs, ev{"op": "world", "run": run, "mode": sc.Mode, "pre": pre, "folder": wk.fname, "below": wk.fpath})
	if err := os.MkdirAll(filepath.Join(wk.w.Root, filepath.Join(wk.fpath...)), 0755); err != nil {
		panic(err)
	}
	if sc.Mode == "down" || len(sc.Pre) > 0 {
		if err := os.MkdirAll(F, 0755); err != nil {
			panic(err)
		}
	}
	// folders first, then files
	for _, n := range sc.Pre {
		if n.Kind == "dir" {
			if err := os.MkdirAll(filepath.Join(F, filepath.Join(names(n.Path)...)), 0755); err != nil {
				panic(err)
			}
		}
	}
	for _, n := range sc.Pre {
		if n.Kind == "file" {
			p := names(n.Path)
			fp := filepath.Join(F, filepath.Join(p...))
			if n.Partial {
				fp += ".incomplete"
			}
			if err := os.MkdirAll(filepath.Dir(fp), 0755); err != nil {
				panic(err)
			}
			if err := os.WriteFile(fp, Content(keyOf(p), n.Size), 0644); err != nil {
				panic(err)
			}
		}
	}
	// split the steps into the upload part and the download part
	var ups []step
	acts := map[string]step{}
	hasUp, hasDown, upCount := false, false, 0
	for _, s := range sc.Steps {
		switch s.Op {
		case "upreq":
			hasUp, upCount = true, s.Count
		case "upitem":
			ups = append(ups, s)
		case "dlreq":
			hasDown = true
		case "dlitem":
			acts[keyOf(names(s.Path))] = s
		}
	}
	if hasUp {
		more, broken := wk.upload(run, runDir, F, upCount, ups)
		evs = append(evs, more...)
		if broken {
			hasDown = false
		}
	}
	if hasDown {
		evs = append(evs, wk.download(run, runDir, acts)...)
	}
	_ = os.RemoveAll(filepath.Join(wk.w.Root, runDir))
	return evs
}

func (wk *worker) download(run int, runDir string, acts map[string]step) []ev {
	var evs []ev
	rep, err := wk.c.Request(sim.TDownloadFldr, sim.Fld(sim.FFileName, []byte(wk.fname)), sim.Fld(sim.FFilePath, sim.EncPath(wk.fpath...)))
	count := -1
	if c, ok := rep.Get(sim.FFolderItemCount); ok {
		count = sim.BE(c)
	}
	ref, okRef := rep.Get(sim.FRefNum)
	bad := err != nil || rep.Err != 0 || !okRef || len(ref) != 4
	evs = append(evs, ev{"op": "dlreq", "run": run, "count": count, "err": b2i(bad)})
	if bad {
		evs = append(evs, ev{"op": "dlend", "run": run, "status": "norequest", "headers": 0, "count": count, "tail": 0})
		return evs
	}
	x := startXfer(wk.w, ref, wk.c.Addr)
	defer x.ce.Close()
	_, _ = x.ce.Write([]byte{0, 3}) // the client's first action
	headers := 0
	status := ""
	tail := 0
	for {
		b, st := x.quiesce()
		if st == "stalled" {
			status, tail = "stalled", len(b)
			break
		}
		if len(b) == 0 {
			if st == "finished" {
				status = "done"
			} else {
				status = "silent" // the server waits for input although nothing is outstanding
			}
			break
		}
		if headers >= 5000 {
			status, tail = "runaway", len(b)
			break
		}
		h := parseItemHeader(b)
		headers++
		s, known := acts[keyOf(h.Path)]
		act, k := 3, 0
		if known && h.OK {
			act, k = s.Act, s.K
		}
		e := ev{"op": "dlitem", "run": run, "i": headers, "type": h.Type, "path": ints(h.Path), "hdrok": h.OK, "extra": h.Extra,
			"act": act, "k": k, "sends": false, "prefix": -1, "follow": 0, "hdr": -1, "dlen": -1, "sfx": false, "sfxp": false, "obj": false, "rsrc": 0, "name": []int{}}
		if !h.OK {
			e["extra"] = len(b)
			evs = append(evs, e)
			status, tail = "garbage", len(b)
			break
		}
		switch {
		case act == 2:
			rd := encResume(k)
			msg := append([]byte{0, 2, byte(len(rd) >> 8), byte(len(rd))}, rd...)
			_, _ = x.ce.Write(msg)
		default:
			_, _ = x.ce.Write([]byte{0, byte(act)})
		}
		if h.Type == 0 && (act == 1 || act == 2) {
			fb, st2 := x.quiesce()
			e["sends"] = true
			if len(fb) >= 4 {
				e["prefix"] = sim.BE(fb[0:4])
				e["follow"] = len(fb) - 4
				o := parseObject(fb[4:], act == 2)
				e["obj"] = o.OK
				if o.OK {
					src := Content(keyOf(h.Path), diskSize(filepath.Join(wk.w.Root, filepath.Join(wk.fpath...), wk.fname, filepath.Join(h.Path...))))
					e["hdr"] = o.HdrLen
					e["dlen"] = len(o.Data)
					e["rsrc"] = o.RsrcLen
					e["sfx"] = len(o.Data) <= len(src) && bytes.Equal(o.Data, src[len(src)-len(o.Data):])
					// the entry may be the partial data of an interrupted upload (content of the name without
					// the suffix) rather than an entry a user named *.incomplete: observe both readings
					e["sfxp"] = e["sfx"]
					if sp := stripInc(h.Path); sp != nil {
						srcp := Content(keyOf(sp), len(src))
						e["sfxp"] = len(o.Data) <= len(srcp) && bytes.Equal(o.Data, srcp[len(srcp)-len(o.Data):])
					}
					e["name"] = ints([]string{o.Name})[0]
				}
			} else {
				e["follow"] = len(fb)
			}
			evs = append(evs, e)
			if st2 == "stalled" {
				status = "stalled"
				break
			}
			if st2 == "finished" {
				continue // the next quiesce reports the end
			}
			_, _ = x.ce.Write([]byte{0, 3})
			continue
		}
		evs = append(evs, e)
	}
	evs = append(evs, ev{"op": "dlend", "run": run, "status": status, "headers": headers, "count": count, "tail": tail})
	return evs
}

// diskSize is the length of the source file the harness itself wrote (or that an upload produced) - needed only to
// regenerate the source bytes for the suffix comparison.
func diskSize(p string) int {
	fi, err := os.Stat(p)
	if err != nil {
		return 0
	}
	return int(fi.Size())
}

// need makes at least n unread server bytes available.  The server's side of the connection is a byte stream: bytes
// that arrived earlier than expected are the answer to whatever the client sends next, exactly as a real client
// reading the socket would take them.  Returns false when the server can send nothing more without input (st says
// why: "waiting" = blocked reading, "finished", "stalled").
func (x *xfer) need(n int) (ok bool, st string) {
	st = "buffered"
	for len(x.pending) < n {
		b, s := x.quiesce()
		st = s
		x.pending = append(x.pending, b...)
		if len(b) == 0 || s == "stalled" {
			break
		}
	}
	return len(x.pending) >= n, st
}

func (x *xfer) take(n int) []byte {
	b := x.pending[:n]
	x.pending = x.pending[n:]
	return b
}

func (wk *worker) upload(run int, runDir, F string, count int, items []step) (evs []ev, wasCut bool) {
	total := 0
	for _, it := range items {
		total += it.Size
	}
	rep, err := wk.c.Request(sim.TUploadFldr, sim.Fld(sim.FFileName, []byte(wk.fname)), sim.Fld(sim.FFilePath, sim.EncPath(wk.fpath...)),
		sim.Fld(sim.FTransferSize, sim.U32(total)), sim.Fld(sim.FFolderItemCount, sim.U16(count)))
	ref, okRef := rep.Get(sim.FRefNum)
	bad := err != nil || rep.Err != 0 || !okRef || len(ref) != 4
	if bad {
		evs = append(evs, ev{"op": "upreq", "run": run, "count": count, "err": 1, "start": -1})
		evs = append(evs, wk.upend(run, F, "norequest", false, 0))
		return evs, true
	}
	x := startXfer(wk.w, ref, wk.c.Addr)
	defer x.ce.Close()
	ok, st := x.need(2)
	start := -1
	if ok {
		start = sim.BE(x.take(2))
	}
	evs = append(evs, ev{"op": "upreq", "run": run, "count": count, "err": 0, "start": start})
	status := ""
	if start != 3 {
		evs = append(evs, wk.upend(run, F, "nostart:"+st, false, len(x.pending)))
		return evs, true
	}
	for i, it := range items {
		p := names(it.Path)
		cut := -1
		if it.Cut != nil {
			cut = *it.Cut
		}
		_, _ = x.ce.Write(encItemHeader(it.Kind == "dir", p))
		// early = server bytes that were already there before this item was streamed
		e := ev{"op": "upitem", "run": run, "i": i + 1, "path": it.Path, "kind": it.Kind, "size": it.Size, "cut": cut,
			"act": -1, "off": -1, "ack": -1, "early": len(x.pending), "unsent": false}
		ok, st := x.need(2)
		if !ok {
			evs = append(evs, e)
			status = "broken:" + st
			break
		}
		act := sim.BE(x.take(2))
		e["act"] = act
		if act == 2 {
			off := -1
			if ok, _ := x.need(2); ok {
				rl := sim.BE(x.pending[0:2])
				if ok, _ := x.need(2 + rl); ok {
					x.take(2)
					off = parseResume(x.take(rl))
				}
			}
			e["off"] = off
			if it.Kind == "dir" || off < 0 || off > it.Size {
				evs = append(evs, e)
				status = "badresume"
				break
			}
		}
		if it.Kind == "dir" || (act != 1 && act != 2) {
			evs = append(evs, e)
			continue
		}
		off := 0
		if act == 2 {
			off = e["off"].(int)
		}
		data := Content(keyOf(p), it.Size)[off:]
		hdr := encObjectHeader(p[len(p)-1], len(data))
		msg := append(sim.U32(len(hdr)+len(data)), hdr...)
		if cut >= 0 && cut < len(data) {
			msg = append(msg, data[:cut]...)
			_, _ = x.ce.Write(msg)
			// the server must have taken everything before the connection goes away
			x.quiesce()
			x.ce.Close()
			wasCut = true
			evs = append(evs, e)
			status = x.waitFinished()
			if status == "finished" {
				status = "done"
			}
			break
		}
		msg = append(msg, data...)
		_, _ = x.ce.Write(msg)
		ok, st = x.need(2)
		if ok {
			e["ack"] = sim.BE(x.take(2))
		}
		evs = append(evs, e)
		if !ok {
			status = "broken:" + st
			break
		}
	}
	if strings.HasPrefix(status, "broken:") {
		// the server stopped answering while the client still had items: list them (up to a scripted cut, which
		// the client never reached) so that the outcome can be judged against the whole streamed tree
		for i := len(evs) - 1; i < len(items); i++ {
			it := items[i]
			if it.Cut != nil && *it.Cut >= 0 {
				break
			}
			evs = append(evs, ev{"op": "upitem", "run": run, "i": i + 1, "path": it.Path, "kind": it.Kind, "size": it.Size, "cut": -1,
				"act": -1, "off": -1, "ack": -1, "early": 0, "unsent": true})
		}
	}
	if status == "" {
		// all announced items streamed: the handler returns.  If it is instead blocked reading, it expects more.
		b, st := x.quiesce()
		x.pending = append(x.pending, b...)
		switch st {
		case "finished":
			status = "done"
		case "waiting":
			status = "expects-more"
		default:
			status = st
		}
	}
	evs = append(evs, wk.upend(run, F, status, wasCut, len(x.pending)))
	return evs, status != "done"
}

func (wk *worker) upend(run int, F, status string, cut bool, tail int) ev {
	snap := []ev{}
	_, err := os.Stat(F)
	exists := err == nil
	if exists {
		es, _ := sim.Snapshot(F)
		for _, en := range es {
			p := strings.Split(en.Path, "/")
			partial := false
			if en.Kind == "file" && strings.HasSuffix(p[len(p)-1], ".incomplete") {
				partial = true
				p[len(p)-1] = strings.TrimSuffix(p[len(p)-1], ".incomplete")
			}
			// raw = the on-disk path; an entry named *.incomplete is reported as the partial data of the name without
			// the suffix (path, partial, pfx) and, for the other reading, with pfxraw = the bytes belong to the raw name
			raw := strings.Split(en.Path, "/")
			pfx, pfxraw := true, true
			if en.Kind == "file" {
				got, _ := os.ReadFile(filepath.Join(F, filepath.FromSlash(en.Path)))
				pfx = bytes.Equal(got, Content(keyOf(p), len(got)))
				pfxraw = bytes.Equal(got, Content(keyOf(raw), len(got)))
			}
			snap = append(snap, ev{"path": ints(p), "raw": ints(raw), "kind": en.Kind, "size": int(en.Size), "partial": partial, "pfx": pfx, "pfxraw": pfxraw})
		}
	}
	return ev{"op": "upend", "run": run, "status": status, "cut": cut, "exists": exists, "snap": snap, "tail": tail}
}

// The folder transfer handlers never close the files they send or receive (DownloadFolderHandler: fileStore.Open;
// UploadFolderHandler: incFileWriter / os.OpenFile); only the garbage collector's finalizers do.  A process that
// runs tens of thousands of transfers must therefore make the collector run, or it exhausts its descriptors.
var fdMu sync.Mutex

func openDescriptors() int {
	es, err := os.ReadDir("/proc/self/fd")
	if err != nil {
		return 0
	}
	return len(es)
}

func reclaimDescriptors() {
	if openDescriptors() < 3000 {
		return
	}
	fdMu.Lock()
	defer fdMu.Unlock()
	for i := 0; i < 50 && openDescriptors() > 1000; i++ {
		runtime.GC()
		time.Sleep(20 * time.Millisecond)
	}
}

// stripInc returns the path with ".incomplete" removed from its last name, or nil if the name has no such suffix.
func stripInc(p []string) []string {
	if len(p) == 0 || !strings.HasSuffix(p[len(p)-1], ".incomplete") {
		return nil
	}
	q := append([]string{}, p...)
	q[len(q)-1] = strings.TrimSuffix(q[len(q)-1], ".incomplete")
	return q
}

func b2i(b bool) int {
	if b {
		return 1
	}
	return 0
}

// Run is the entry point of vh-folder.
//
//	vh-folder -scripts s.ndjson -out log.ndjson [-par N]      execute scripts
//	vh-folder -gen N -genout s.ndjson [-big]                  draw N random scripts from VERIF_SEED
func Run(args []string) error {
	fs := flag.NewFlagSet("vh-folder", flag.ContinueOnError)
	scripts := fs.String("scripts", "", "ndjson file of scripts")
	out := fs.String("out", "", "ndjson event log to write")
	par := fs.Int("par", 16, "parallel workers")
	gen := fs.Int("gen", 0, "generate this many random scripts instead of running")
	genout := fs.String("genout", "", "where to write generated scripts")
	big := fs.Bool("big", false, "random scripts: larger trees and files")
	if err := fs.Parse(args); err != nil {
		return err
	}
	if *gen > 0 {
		return generate(*gen, *genout, *big)
	}
	if *scripts == "" || *out == "" {
		return fmt.Errorf("need -scripts and -out")
	}
	f, err := os.Open(*scripts)
	if err != nil {
		return err
	}
	defer f.Close()
	var all []script
	scn := bufio.NewScanner(f)
	scn.Buffer(make([]byte, 1<<20), 1<<28)
	for scn.Scan() {
		if len(bytes.TrimSpace(scn.Bytes())) == 0 {
			continue
		}
		var s script
		if err := json.Unmarshal(scn.Bytes(), &s); err != nil {
			return fmt.Errorf("script %d: %w", len(all)+1, err)
		}
		all = append(all, s)
	}
	if err := scn.Err(); err != nil {
		return err
	}
	var rl syscall.Rlimit
	if syscall.Getrlimit(syscall.RLIMIT_NOFILE, &rl) == nil && rl.Cur < rl.Max {
		rl.Cur = rl.Max
		_ = syscall.Setrlimit(syscall.RLIMIT_NOFILE, &rl)
	}
	w, err := sim.NewWorld(sim.WorldOpts{Accounts: []sim.Acct{{Login: "xfer", Name: "xfer", Password: "pw",
		Access: sim.AccessBits(1, 2, 5, 25, 38, 39)}}})
	if err != nil {
		return err
	}
	results := make([][]ev, len(all))
	jobs := make(chan int)
	var wg sync.WaitGroup
	errs := make(chan error, *par)
	for i := 0; i < *par; i++ {
		c := w.Dial("")
		if _, err := c.Login(sim.LoginOpts{Login: "xfer", Password: "pw", Name: "xfer"}); err != nil {
			return fmt.Errorf("login: %w", err)
		}
		wk := &worker{w: w, c: c}
		wg.Add(1)
		go func() {
			defer wg.Done()
			defer func() {
				if r := recover(); r != nil {
					errs <- fmt.Errorf("worker: %v", r)
				}
			}()
			for j := range jobs {
				results[j] = wk.runScript(j+1, all[j])
				if j%100 == 99 {
					reclaimDescriptors()
				}
			}
		}()
	}
	go func() {
		for j := range all {
			jobs <- j
		}
		close(jobs)
	}()
	doneCh := make(chan struct{})
	go func() { wg.Wait(); close(doneCh) }()
	select {
	case <-doneCh:
	case err := <-errs:
		return err
	}
	select {
	case err := <-errs:
		return err
	default:
	}
	lg, err := sim.NewLog(*out)
	if err != nil {
		return err
	}
	n := 0
	for _, r := range results {
		lg.EmitAll(r)
		n += len(r)
	}
	if err := lg.Close(); err != nil {
		return err
	}
	_ = os.RemoveAll(w.Dir)
	fmt.Printf("folder: %d scripts, %d events\n", len(all), n)
	return nil
}
