package folder

import (
	"bufio"
	"encoding/json"
	"fmt"
	"math/rand"
	"os"
	"strconv"
	"strings"
)

// Random scripts (seeded by VERIF_SEED): larger trees, deeper nesting, bigger files, more kinds of names, random
// streaming orders, unrelated pre-existing entries, folder headers answered with "send".  Same format as the
// behaviours TLC emits from MC_Folder; the trace specification judges them with the same operators.

var namePool = []string{"a", "a.txt", "a b", "a-", "a0", "b", "B", "Z", "_x", "x.y.z", "readme.md", "00", "zz", "#1", "~t",
	"caf\xc3\xa9", "a-name-that-is-rather-long-0123456789", "c", "d", "e.bin", "f", ".h", ".hid", "..x",
	// names a user may give that look like the server's partial-data names
	"a.incomplete", "m.incomplete", "n.incomplete.y", "x.incomplete.tar",
	// children named like the requested folder (the driver calls it F or, every third run, like the file root: root)
	"F", "root"}

type gnode struct {
	path []string
	dir  bool
	size int
}

func pickSize(r *rand.Rand, big bool) int {
	small := []int{0, 0, 1, 2, 3, 7, 10, 100, 1000, 4096}
	if r.Intn(10) < 7 {
		return small[r.Intn(len(small))]
	}
	more := []int{4095, 4097, 32767, 32768, 32769, 33000}
	if big {
		more = append(more, 65536, 65537, 100000, 200000, 1<<20)
	}
	return more[r.Intn(len(more))]
}

func hidden(nm string) bool { return strings.HasPrefix(nm, ".") }

func randTree(r *rand.Rand, n, maxDepth int, big, dotParents bool) []gnode {
	var nodes []gnode
	dirs := [][]string{{}}
	used := map[string]bool{}
	for tries := 0; len(nodes) < n && tries < 10*n+10; tries++ {
		par := dirs[r.Intn(len(dirs))]
		nm := namePool[r.Intn(len(namePool))]
		p := append(append([]string{}, par...), nm)
		k := keyOf(p)
		// the server keeps the partial data of x under x.incomplete: x and an entry named x.incomplete never both
		if used[k] || used[k+".incomplete"] || (strings.HasSuffix(nm, ".incomplete") && used[strings.TrimSuffix(k, ".incomplete")]) {
			continue
		}
		used[k] = true
		g := gnode{path: p}
		if r.Intn(100) < 35 {
			g.dir = true
			if len(p) < maxDepth && (dotParents || !hidden(nm)) {
				dirs = append(dirs, p)
				if r.Intn(3) == 0 { // favour depth
					dirs = append(dirs, p)
				}
			}
		} else {
			g.size = pickSize(r, big)
		}
		nodes = append(nodes, g)
	}
	return nodes
}

func (g gnode) node(size int, partial bool) node {
	k := "file"
	if g.dir {
		k = "dir"
		size = 0
	}
	return node{Path: ints(g.path), Kind: k, Size: size, Partial: partial}
}

func pickOffset(r *rand.Rand, size int) int {
	c := []int{0, 1, size / 2, size - 1, size, r.Intn(size + 1)}
	k := c[r.Intn(len(c))]
	if k < 0 {
		k = 0
	}
	if k > size {
		k = size
	}
	return k
}

func dlSteps(r *rand.Rand, tree []gnode, allSend bool) []step {
	st := []step{{Op: "dlreq"}}
	for _, g := range tree {
		s := step{Op: "dlitem", Path: ints(g.path), Act: 3}
		if g.dir {
			if !allSend && r.Intn(20) == 0 {
				s.Act = 1
			}
		} else if allSend {
			s.Act = 1
		} else {
			switch x := r.Intn(100); {
			case x < 40:
				s.Act = 1
			case x < 65:
				s.Act = 3
			default:
				s.Act = 2
				s.K = pickOffset(r, g.size)
			}
		}
		st = append(st, s)
		if !g.dir {
			// should the partial data of this file be on the server (left by a cut, or put there by the script), it
			// is announced under its on-disk name: ask for it
			ip := append(append([]string{}, g.path[:len(g.path)-1]...), g.path[len(g.path)-1]+".incomplete")
			st = append(st, step{Op: "dlitem", Path: ints(ip), Act: 1})
		}
	}
	return append(st, step{Op: "dlend"})
}

func randScript(r *rand.Rand, big bool) script {
	n, depth := 1+r.Intn(12), 1+r.Intn(4)
	if big {
		n, depth = 5+r.Intn(56), 2+r.Intn(5)
	}
	dotParents := r.Intn(20) == 0
	tree := randTree(r, n, depth, big, dotParents)
	if r.Intn(2) == 0 {
		sc := script{Mode: "down", Pre: []node{}}
		for _, g := range tree {
			// leftovers of interrupted uploads: partial data alone, or next to the final name
			x := r.Intn(100)
			if g.dir || strings.HasSuffix(g.path[len(g.path)-1], ".incomplete") {
				x = 99
			}
			if x >= 8 {
				sc.Pre = append(sc.Pre, g.node(g.size, false))
			}
			if x < 16 {
				sc.Pre = append(sc.Pre, g.node(pickOffset(r, g.size), true))
			}
		}
		sc.Steps = dlSteps(r, tree, false)
		return sc
	}
	// upload: tree is the client's local tree (generated parents first); choose the state of the target
	sc := script{Mode: "up", Pre: []node{}}
	there := map[string]bool{"": true}
	type st struct {
		whole   bool
		partial int // -1: none
		size    int // length of the complete file already there
	}
	state := map[string]st{}
	for _, g := range tree {
		par := keyOf(g.path[:len(g.path)-1])
		if !there[par] {
			continue
		}
		k := keyOf(g.path)
		if g.dir {
			if r.Intn(2) == 0 {
				there[k] = true
				sc.Pre = append(sc.Pre, g.node(0, false))
			}
			continue
		}
		switch x := r.Intn(100); {
		case x < 55:
		case x < 75:
			sz := g.size
			if r.Intn(4) == 0 { // a complete file of another length under the same name: still skipped
				sz = pickSize(r, false)
			}
			state[k] = st{whole: true, partial: -1, size: sz}
			sc.Pre = append(sc.Pre, g.node(sz, false))
		default:
			j := pickOffset(r, g.size)
			state[k] = st{partial: j}
			sc.Pre = append(sc.Pre, g.node(j, true))
		}
	}
	if r.Intn(5) == 0 { // something unrelated in the target
		sc.Pre = append(sc.Pre, node{Path: ints([]string{"unrelated.dat"}), Kind: "file", Size: 1 + r.Intn(50)})
	}
	if r.Intn(6) == 0 { // the partial data of some earlier, interrupted upload
		sc.Pre = append(sc.Pre, node{Path: ints([]string{"left.bin"}), Kind: "file", Size: r.Intn(40), Partial: true})
	}
	// streaming order: parents first; either as generated or depth-first by name (both are orders a client may use)
	order := append([]gnode{}, tree...)
	if r.Intn(2) == 0 {
		order = dfs(tree)
	}
	sc.Steps = append(sc.Steps, step{Op: "upreq", Count: len(order)})
	cutAt := -1
	if r.Intn(100) < 30 {
		var cand []int
		for i, g := range order {
			s, ok := state[keyOf(g.path)]
			if g.dir || (ok && s.whole) {
				continue
			}
			rem := g.size
			if ok && s.partial >= 0 {
				rem = g.size - s.partial
			}
			if rem > 0 {
				cand = append(cand, i)
			}
		}
		if len(cand) > 0 {
			cutAt = cand[r.Intn(len(cand))]
		}
	}
	for i, g := range order {
		c := -1
		if i == cutAt {
			rem := g.size
			if s, ok := state[keyOf(g.path)]; ok && s.partial >= 0 {
				rem = g.size - s.partial
			}
			c = []int{0, rem - 1, r.Intn(rem)}[r.Intn(3)]
		}
		cc := c
		k := "file"
		if g.dir {
			k = "dir"
		}
		sc.Steps = append(sc.Steps, step{Op: "upitem", Path: ints(g.path), Kind: k, Size: g.size, Cut: &cc})
		if c >= 0 {
			break
		}
	}
	sc.Steps = append(sc.Steps, step{Op: "upend"})
	if cutAt >= 0 {
		// the cut leaves partial data behind: download the folder as it is now, asking for everything
		sc.Steps = append(sc.Steps, dlSteps(r, append(tree[:len(tree):len(tree)], gnode{path: []string{"left.bin"}}), true)...)
	}
	if cutAt < 0 {
		// what the folder holds afterwards: a complete file that was already there keeps its length
		final := append([]gnode{}, tree...)
		for i, g := range final {
			if s, ok := state[keyOf(g.path)]; ok && s.whole {
				final[i].size = s.size
			}
		}
		final = append(final, gnode{path: []string{"left.bin"}})
		sc.Steps = append(sc.Steps, dlSteps(r, final, r.Intn(2) == 0)...)
	}
	return sc
}

// dfs orders a tree depth-first with children in name order.
func dfs(tree []gnode) []gnode {
	kids := map[string][]gnode{}
	for _, g := range tree {
		par := keyOf(g.path[:len(g.path)-1])
		kids[par] = append(kids[par], g)
	}
	var out []gnode
	var walk func(par string)
	walk = func(par string) {
		ks := kids[par]
		for i := range ks {
			for j := i + 1; j < len(ks); j++ {
				if ks[j].path[len(ks[j].path)-1] < ks[i].path[len(ks[i].path)-1] {
					ks[i], ks[j] = ks[j], ks[i]
				}
			}
		}
		for _, g := range ks {
			out = append(out, g)
			if g.dir {
				walk(keyOf(g.path))
			}
		}
	}
	walk("")
	return out
}

func generate(n int, outPath string, big bool) error {
	if outPath == "" {
		return fmt.Errorf("need -genout")
	}
	seed, _ := strconv.ParseInt(os.Getenv("VERIF_SEED"), 10, 64)
	if seed == 0 {
		seed = 1
	}
	if big {
		seed += 1 << 32
	}
	r := rand.New(rand.NewSource(seed))
	f, err := os.Create(outPath)
	if err != nil {
		return err
	}
	defer f.Close()
	w := bufio.NewWriter(f)
	for i := 0; i < n; i++ {
		b, err := json.Marshal(randScript(r, big))
		if err != nil {
			return err
		}
		w.Write(b)
		w.WriteByte('\n')
	}
	return w.Flush()
}
