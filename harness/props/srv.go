package props

import (
	"context"
	"encoding/hex"
	"encoding/json"
	"flag"
	"fmt"
	"math/rand"
	"os"
	"sort"
	"sync"
	"time"

	"verifharness/sim"
)

// `vharness srv`: executes action scripts of the Server specification (connections, login, presence, chat,
// private messages, kicks and bans) against the real server and records what the real server did.  The driver
// holds no expectations: it only translates steps into protocol requests and canonicalises what every client
// received.  Trace_Server.tla judges the log.

type srvScript struct {
	World struct {
		Accts     map[string]srvAcct `json:"accts"`
		Agreement []int              `json:"agreement"`
	} `json:"world"`
	Steps []map[string]any `json:"steps"`
}

type srvAcct struct {
	RawHash *string `json:"rawhash,omitempty"` // stored verbatim as the password hash (unusable hashes)
	Pw      []int   `json:"pw"`
	Name    []int   `json:"name"`
	Acc     []int   `json:"acc"`
}

func bytesOf(v any) []byte {
	switch x := v.(type) {
	case nil:
		return nil
	case string:
		return []byte(x)
	case []any:
		b := make([]byte, len(x))
		for i, e := range x {
			b[i] = byte(int(e.(float64)))
		}
		return b
	case []int:
		b := make([]byte, len(x))
		for i, e := range x {
			b[i] = byte(e)
		}
		return b
	}
	return nil
}

func intOf(v any) int {
	switch x := v.(type) {
	case float64:
		return int(x)
	case int:
		return x
	case bool:
		if x {
			return 1
		}
	}
	return 0
}

func intsOf(v any) []int {
	var out []int
	if l, ok := v.([]any); ok {
		for _, e := range l {
			out = append(out, intOf(e))
		}
	}
	return out
}

func RunSrv(args []string) error {
	fs := flag.NewFlagSet("srv", flag.ExitOnError)
	in := fs.String("scripts", "", "ndjson file, one script per line")
	out := fs.String("out", "log.ndjson", "event log")
	par := fs.Int("par", 16, "parallel scenarios")
	decorate := fs.Int64("decorate", 0, "if non-zero: replace names/messages of the scripts by seeded random data of interesting sizes")
	_ = fs.Parse(args)
	f, err := os.ReadFile(*in)
	if err != nil {
		return err
	}
	var scripts []srvScript
	for _, line := range splitLines(f) {
		var s srvScript
		if err := json.Unmarshal(line, &s); err != nil {
			return fmt.Errorf("script: %w", err)
		}
		scripts = append(scripts, s)
	}
	lg, err := sim.NewLog(*out)
	if err != nil {
		return err
	}
	results := make([][]map[string]any, len(scripts))
	errs := make([]error, len(scripts))
	var wg sync.WaitGroup
	sem := make(chan struct{}, *par)
	for i := range scripts {
		wg.Add(1)
		sem <- struct{}{}
		go func(i int) {
			defer wg.Done()
			defer func() { <-sem }()
			if *decorate != 0 {
				decorateScript(&scripts[i], *decorate*1000003+int64(i))
			}
			results[i], errs[i] = runSrvScript(i+1, scripts[i])
		}(i)
	}
	wg.Wait()
	// a script the driver could not carry through (the real server did not react the way every driver step relies
	// on) is recorded as such and the other scripts still count: the trace specification reports it as drift
	failed := 0
	for i := range scripts {
		if errs[i] != nil {
			failed++
			fmt.Fprintf(os.Stderr, "script %d: %v\n", i+1, errs[i])
			if len(results[i]) == 0 {
				continue
			}
			results[i] = append(results[i], map[string]any{"op": "harnesserror", "run": i + 1, "err": errs[i].Error()})
		}
		lg.EmitAll(results[i])
	}
	if failed == len(scripts) && failed > 0 {
		return fmt.Errorf("every script failed; first: %w", errs[0])
	}
	return lg.Close()
}

func splitLines(b []byte) [][]byte {
	var out [][]byte
	start := 0
	for i := 0; i <= len(b); i++ {
		if i == len(b) || b[i] == '\n' {
			if i > start {
				out = append(out, b[start:i])
			}
			start = i + 1
		}
	}
	return out
}

type srvRun struct {
	w          *sim.World
	cl         map[int]*sim.Client // slot -> client
	ids        map[int]int         // slot -> user id assigned at login
	ips        map[int]string
	chatIdx    map[string]int
	chatIDs    [][]byte                  // index-1 -> raw chat id
	pending    map[int]map[uint32]string // slot -> request id -> op (for reply canonicalisation)
	settle     map[int]map[uint32]bool
	doneSeen   map[int]bool
	soon       map[string]time.Time // ip -> planted expiry of a "soon" ban
	port       int
	extra      []map[string]any // environment events to log before the current step
	abort      bool             // stop the script after this step
	unsettled  []int
	g          *gates
	points     map[int]*gatePoint
	idleCancel func()
	loginID    map[int]uint32
	loginArgs  map[int]map[string]any
	everSoon   []time.Time // expiry instants of every short ban planted (also of replaced ones)
	admPw      string // the world's password of account "adm" (storm participants log in with it)
}

func (r *srvRun) chatOf(b []byte) int {
	if len(b) == 0 {
		return 0
	}
	k := hex.EncodeToString(b)
	if i, ok := r.chatIdx[k]; ok {
		return i
	}
	r.chatIDs = append(r.chatIDs, append([]byte(nil), b...))
	r.chatIdx[k] = len(r.chatIDs)
	return len(r.chatIDs)
}

func parseUsers(fields [][]byte) []map[string]any {
	out := []map[string]any{}
	for _, b := range fields {
		if len(b) < 8 {
			out = append(out, map[string]any{"uid": -2, "name": sim.Ints(b), "icon": -2, "flags": -2})
			continue
		}
		n := sim.BE(b[6:8])
		name := b[8:]
		if n <= len(name) {
			name = name[:n]
		}
		out = append(out, map[string]any{"uid": sim.BE(b[0:2]), "icon": sim.BE(b[2:4]), "flags": sim.BE(b[4:6]), "name": sim.Ints(name)})
	}
	return out
}

func beOr(t sim.Tx, id int, def int) int {
	if b, ok := t.Get(id); ok && len(b) > 0 {
		return sim.BE(b)
	}
	return def
}

func dataOr(t sim.Tx, id int) []int {
	if b, ok := t.Get(id); ok {
		return sim.Ints(b)
	}
	return []int{}
}

// canon renders a received transaction in the record shape of Server!Msg.
func (r *srvRun) canon(slot int, t sim.Tx) map[string]any {
	m := map[string]any{"to": slot, "t": t.Type, "rep": t.IsReply, "err": 0, "chat": 0, "uid": -1, "name": []int{}, "data": []int{},
		"icon": -1, "flags": -1, "opt": -1, "users": []map[string]any{}}
	if t.IsReply == 1 {
		m["t"] = 0
		if t.Err != 0 {
			m["err"] = 1
			return m
		}
		op := r.pending[slot][t.ID]
		switch op {
		case "userlist", "wake":
			m["users"] = parseUsers(t.GetAll(sim.FUsernameWithInfo))
		case "invitenew", "invite":
			if b, ok := t.Get(sim.FChatID); ok {
				m["chat"] = r.chatOf(b)
			}
			m["uid"] = beOr(t, sim.FUserID, -1)
			m["name"] = dataOr(t, sim.FUserName)
			m["icon"] = beOr(t, sim.FUserIconID, -1)
			m["flags"] = beOr(t, sim.FUserFlags, -1)
		case "join":
			m["data"] = dataOr(t, sim.FChatSubject)
			m["users"] = parseUsers(t.GetAll(sim.FUsernameWithInfo))
		case "getinfo":
			m["name"] = dataOr(t, sim.FUserName)
		}
		return m
	}
	chat := 0
	if b, ok := t.Get(sim.FChatID); ok {
		chat = r.chatOf(b)
	}
	switch t.Type {
	case sim.TChatMsg:
		m["chat"] = chat
		m["data"] = dataOr(t, sim.FData)
	case sim.TNotifyChatChangeUser:
		m["chat"] = chat
		m["uid"] = beOr(t, sim.FUserID, -1)
		m["name"] = dataOr(t, sim.FUserName)
		m["icon"] = beOr(t, sim.FUserIconID, -1)
		m["flags"] = beOr(t, sim.FUserFlags, -1)
	case sim.TNotifyChatDeleteUser:
		m["chat"] = chat
		m["uid"] = beOr(t, sim.FUserID, -1)
	case sim.TNotifyChatSubject:
		m["chat"] = chat
		m["data"] = dataOr(t, sim.FChatSubject)
	case sim.TInviteToChat:
		m["chat"] = chat
		m["uid"] = beOr(t, sim.FUserID, -1)
		m["name"] = dataOr(t, sim.FUserName)
	case sim.TServerMsg:
		m["data"] = dataOr(t, sim.FData)
		m["name"] = dataOr(t, sim.FUserName)
		m["uid"] = beOr(t, sim.FUserID, -1)
		if _, ok := t.Get(sim.FOptions); ok {
			m["opt"] = beOr(t, sim.FOptions, 0)
		} else if _, ok := t.Get(sim.FChatOptions); ok {
			m["opt"] = beOr(t, sim.FChatOptions, 0)
		}
	case sim.TNotifyChangeUser:
		m["uid"] = beOr(t, sim.FUserID, -1)
		m["name"] = dataOr(t, sim.FUserName)
		m["icon"] = beOr(t, sim.FUserIconID, -1)
		m["flags"] = beOr(t, sim.FUserFlags, -1)
	case sim.TNotifyDeleteUser:
		m["uid"] = beOr(t, sim.FUserID, -1)
	case sim.TUserAccess:
		m["data"] = dataOr(t, sim.FUserAccess)
	case sim.TShowAgreement:
		m["data"] = dataOr(t, sim.FData)
		if b, ok := t.Get(sim.FNoServerAgreement); ok && len(b) > 0 && b[0] != 0 {
			m["opt"] = 1
		}
	}
	return m
}

// collect drains every client's inbox into canonical delivery records (keep-alive replies of settles excluded).
func (r *srvRun) collect() []map[string]any {
	out := []map[string]any{}
	slots := make([]int, 0, len(r.cl))
	for s := range r.cl {
		slots = append(slots, s)
	}
	sort.Ints(slots)
	for _, s := range slots {
		for _, t := range r.cl[s].Drain() {
			if t.IsReply == 1 && r.settle[s][t.ID] {
				delete(r.settle[s], t.ID)
				continue
			}
			out = append(out, r.canon(s, t))
		}
	}
	return out
}

func (r *srvRun) liveSlots() []int {
	var out []int
	for s, c := range r.cl {
		if _, ok := r.ids[s]; ok && !c.ServerDone() {
			out = append(out, s)
		}
	}
	sort.Ints(out)
	return out
}

// quiesce makes a keep-alive round trip on every logged-in connection: with the in-order pump everything
// produced before is delivered when it returns.
func (r *srvRun) quiesce() error {
	for _, s := range r.liveSlots() {
		c := r.cl[s]
		id := c.Send(sim.TKeepAlive)
		r.settle[s][id] = true
		if _, err := c.WaitFor(func(t sim.Tx) bool { return t.IsReply == 1 && t.ID == id }, 5*time.Second); err != nil {
			if err == sim.ErrClosed {
				continue // closed meanwhile (e.g. kicked): observed through `closed`
			}
			// a connection whose keep-alive is not answered (e.g. its registry entry was taken over by another
			// connection with the same user ID): observed, the run ends after this step
			r.unsettled = append(r.unsettled, s)
			r.abort = true
		}
	}
	return nil
}

func (r *srvRun) newlyClosed() []int {
	out := []int{}
	slots := make([]int, 0, len(r.cl))
	for s := range r.cl {
		slots = append(slots, s)
	}
	sort.Ints(slots)
	for _, s := range slots {
		if !r.doneSeen[s] && r.cl[s].ServerDone() {
			r.doneSeen[s] = true
			out = append(out, s)
		}
	}
	return out
}

func (r *srvRun) send(slot int, op string, typ int, fields ...sim.F) uint32 {
	id := r.cl[slot].Send(typ, fields...)
	r.pending[slot][id] = op
	return id
}

func (r *srvRun) uidOf(slot int) []byte {
	return sim.U16(r.ids[slot])
}

func (r *srvRun) chatID(k int) []byte {
	if k >= 1 && k <= len(r.chatIDs) {
		return r.chatIDs[k-1]
	}
	return []byte{0xde, 0xad, 0xbe, byte(k)}
}

func runSrvScript(run int, sc srvScript) (evs []map[string]any, err error) {
	var accts []sim.Acct
	logins := make([]string, 0)
	for l := range sc.World.Accts {
		logins = append(logins, l)
	}
	sort.Strings(logins)
	for _, l := range logins {
		a := sc.World.Accts[l]
		accts = append(accts, sim.Acct{Login: l, Name: string(bytesOf(a.Name)), Password: string(bytesOf(a.Pw)), Access: sim.AccessBits(a.Acc...), RawHash: a.RawHash})
	}
	w, err := sim.NewWorld(sim.WorldOpts{Accounts: accts, Agreement: string(bytesOf(sc.World.Agreement))})
	if err != nil {
		return nil, err
	}
	g := newGates()
	defer w.Close()
	w.Srv.AccountManager = &gateAM{AccountManager: w.Srv.AccountManager, g: g}
	w.Srv.ClientMgr = &gateCM{ClientManager: w.Srv.ClientMgr, g: g}
	r := &srvRun{g: g, points: map[int]*gatePoint{}, loginID: map[int]uint32{}, loginArgs: map[int]map[string]any{}, w: w, cl: map[int]*sim.Client{}, ids: map[int]int{}, ips: map[int]string{}, chatIdx: map[string]int{},
		pending: map[int]map[uint32]string{}, settle: map[int]map[uint32]bool{}, doneSeen: map[int]bool{}, port: 20000, soon: map[string]time.Time{}}
	r.admPw = string(bytesOf(sc.World.Accts["adm"].Pw))
	wa := map[string]any{}
	for l, a := range sc.World.Accts {
		wa[l] = map[string]any{"pw": nz(a.Pw), "name": nz(a.Name), "acc": nz(a.Acc)}
	}
	evs = append(evs, map[string]any{"op": "world", "run": run, "accts": wa, "agreement": nz(sc.World.Agreement)})
	defer func() { // never leave a handler parked at a gate
		for _, pt := range r.points {
			pt.open()
		}
		if r.idleCancel != nil {
			r.idleCancel()
		}
	}()
	for _, st := range sc.Steps {
		ev := map[string]any{}
		for k, v := range st {
			ev[k] = v
		}
		ev["run"] = run
		r.extra = nil
		if err := r.step(st, ev); err != nil {
			return evs, fmt.Errorf("step %v: %w", st, err)
		}
		for _, x := range r.extra {
			x["run"] = run
			x["closed"] = []int{}
			x["deliv"] = []map[string]any{}
			evs = append(evs, x)
		}
		if r.abort {
			ev["closed"] = []int{}
			ev["deliv"] = []map[string]any{}
			evs = append(evs, ev)
			break
		}
		if err := r.quiesce(); err != nil {
			return evs, err
		}
		ev["closed"] = r.newlyClosed()
		ev["deliv"] = r.collect()
		if len(r.unsettled) > 0 {
			ev["unsettled"] = r.unsettled
		}
		evs = append(evs, ev)
		if r.abort {
			break
		}
	}
	return evs, nil
}

func nz(v []int) []int {
	if v == nil {
		return []int{}
	}
	return v
}

func (r *srvRun) step(st map[string]any, ev map[string]any) error {
	op, _ := st["op"].(string)
	slot := intOf(st["c"])
	c := r.cl[slot]
	switch op {
	case "connect", "dial":
		ip, _ := st["addr"].(string)
		r.expireIfDue(ip)
		r.port++
		c = r.w.DialWith(fmt.Sprintf("%s:%d", ip, r.port), r.g.bind(slot))
		r.cl[slot] = c
		r.ips[slot] = ip
		r.pending[slot] = map[uint32]string{}
		r.settle[slot] = map[uint32]bool{}
		if op == "dial" {
			// accepted, nothing sent yet: the handler waits for the handshake
			if err := c.WaitServerIdleOrDone(10 * time.Second); err != nil {
				ev["busy"] = true
			}
			break
		}
		if err := c.Handshake(10 * time.Second); err != nil {
			ev["nohandshake"] = true // observed
		}
		// either the server now waits for the login (past the door) or it refuses and closes
		if err := c.WaitServerIdleOrDone(10 * time.Second); err != nil {
			ev["busy"] = true
		}
	case "handshake":
		r.expireIfDue(r.ips[slot])
		if err := c.Handshake(10 * time.Second); err != nil {
			ev["nohandshake"] = true // observed
		}
		if err := c.WaitServerIdleOrDone(10 * time.Second); err != nil {
			ev["busy"] = true
		}
	case "login":
		fields := []sim.F{sim.Fld(sim.FUserLogin, sim.Obfuscate([]byte(st["login"].(string)))), sim.Fld(sim.FUserPassword, sim.Obfuscate(bytesOf(st["pw"])))}
		if st["flow"] == "old" {
			fields = append(fields, sim.Fld(sim.FUserName, bytesOf(st["name"])), sim.Fld(sim.FUserIconID, sim.U16(intOf(st["icon"]))))
		} else {
			fields = append(fields, sim.Fld(sim.FVersion, sim.U16(190)))
		}
		ev["matches"] = r.matches(st["login"].(string), bytesOf(st["pw"]))
		id := r.send(slot, "login", sim.TLogin, fields...)
		_, err := c.WaitFor(func(t sim.Tx) bool { return t.IsReply == 1 && t.ID == id }, 10*time.Second)
		if err != nil && err != sim.ErrClosed {
			ev["noreply"] = true // observed: the server neither answered nor closed in time
		}
		if err := c.WaitServerIdleOrDone(10 * time.Second); err != nil {
			ev["busy"] = true
		}
		if !c.ServerDone() {
			r.ids[slot] = c.ID()
			ev["id"] = c.ID()
		} else {
			ev["id"] = -1
		}
	case "loginbegin":
		fields := []sim.F{sim.Fld(sim.FUserLogin, sim.Obfuscate([]byte(st["login"].(string)))), sim.Fld(sim.FUserPassword, sim.Obfuscate(bytesOf(st["pw"])))}
		if st["flow"] == "old" {
			fields = append(fields, sim.Fld(sim.FUserName, bytesOf(st["name"])), sim.Fld(sim.FUserIconID, sim.U16(intOf(st["icon"]))))
		} else {
			fields = append(fields, sim.Fld(sim.FVersion, sim.U16(190)))
		}
		// park the handler where it looks the credentials up
		pt := r.g.arm("amget", slot)
		r.points[slot] = pt
		r.loginID[slot] = r.send(slot, "login", sim.TLogin, fields...)
		r.loginArgs[slot] = st
		ev["gated"] = pt.waitArrived(5 * time.Second)
	case "loginend":
		b := r.loginArgs[slot]
		ev["matches"] = r.matches(b["login"].(string), bytesOf(b["pw"]))
		if pt := r.points[slot]; pt != nil {
			pt.open()
		}
		id := r.loginID[slot]
		_, err := c.WaitFor(func(t sim.Tx) bool { return t.IsReply == 1 && t.ID == id }, 10*time.Second)
		if err != nil && err != sim.ErrClosed {
			ev["noreply"] = true // observed: the server neither answered nor closed in time
		}
		if err := c.WaitServerIdleOrDone(10 * time.Second); err != nil {
			ev["busy"] = true
		}
		if !c.ServerDone() {
			r.ids[slot] = c.ID()
			ev["id"] = c.ID()
		} else {
			ev["id"] = -1
		}
	case "closebegin":
		pt := r.g.arm("cmdel", slot)
		r.points[slot] = pt
		c.Close()
		ev["gated"] = pt.waitArrived(5 * time.Second)
	case "closeend":
		if pt := r.points[slot]; pt != nil {
			pt.open()
		}
		if !c.WaitServerDone(10 * time.Second) {
			ev["stuck"] = true // observed: the handler of a closed connection did not finish
		}
	case "chatstorm":
		return r.chatStorm(st, ev)
	case "banstorm":
		return r.banStorm(st, ev)
	case "agreed":
		f := []sim.F{sim.Fld(sim.FUserName, bytesOf(st["name"])), sim.Fld(sim.FUserIconID, sim.U16(intOf(st["icon"]))), sim.Fld(sim.FOptions, sim.U16(intOf(st["opts"])))}
		if intOf(st["opts"])&4 != 0 {
			f = append(f, sim.Fld(sim.FAutomaticResponse, bytesOf(st["auto"])))
		}
		r.send(slot, op, sim.TAgreed, f...)
	case "setinfo":
		icon := sim.U16(intOf(st["icon"]))
		if intOf(st["icon4"]) == 1 {
			icon = sim.U32(intOf(st["icon"])) // some clients send the icon as a 4-byte integer
		}
		f := []sim.F{sim.Fld(sim.FUserName, bytesOf(st["name"])), sim.Fld(sim.FUserIconID, icon)}
		if o := intOf(st["opts"]); o >= 0 {
			f = append(f, sim.Fld(sim.FOptions, sim.U16(o)))
			if o&4 != 0 {
				f = append(f, sim.Fld(sim.FAutomaticResponse, bytesOf(st["auto"])))
			}
		}
		r.send(slot, op, sim.TSetClientUserInfo, f...)
	case "userlist", "wake":
		r.send(slot, op, sim.TGetUserNameList)
	case "goneidle":
		// the idle-time ticker (every 10 s) marks a user away after more than 300 idle seconds: put the user just
		// below the threshold and wait for the next tick
		if r.idleCancel == nil {
			ctx, cancel := context.WithCancel(context.Background())
			r.idleCancel = cancel
			go r.w.Srv.VerifKeepaliveHandler(ctx)
		}
		if sc := c.ServerConn(); sc != nil {
			sc.IdleTime = 295
		}
		uid := r.ids[slot]
		if _, err := c.WaitFor(func(t sim.Tx) bool {
			if t.Type != sim.TNotifyChangeUser {
				return false
			}
			return beOr(t, sim.FUserID, -1) == uid && beOr(t, sim.FUserFlags, 0)&1 == 1
		}, 12*time.Second); err != nil {
			ev["noaway"] = true // observed: no away notice within one ticker period
		} else {
			// the ticker goroutine tells the users one after the other, outside the request/reply flow that a
			// keep-alive round trip settles: give the notices to the other users a bounded time to arrive
			deadline := time.Now().Add(3 * time.Second)
			for _, o := range r.liveSlots() {
				oc := r.cl[o]
				if o == slot || oc == nil {
					continue
				}
				left := time.Until(deadline)
				if left < 50*time.Millisecond {
					left = 50 * time.Millisecond
				}
				_, _ = oc.WaitFor(func(t sim.Tx) bool {
					return t.Type == sim.TNotifyChangeUser && beOr(t, sim.FUserID, -1) == uid && beOr(t, sim.FUserFlags, 0)&1 == 1
				}, left)
			}
		}
	case "close":
		c.Close()
		if !c.WaitServerDone(10 * time.Second) {
			ev["stuck"] = true // observed: the handler of a closed connection did not finish
		}
	case "chat":
		f := []sim.F{sim.Fld(sim.FData, bytesOf(st["msg"]))}
		if intOf(st["emote"]) == 1 {
			f = append(f, sim.Fld(sim.FChatOptions, []byte{0, 1}))
		}
		if k := intOf(st["chat"]); k != 0 {
			f = append(f, sim.Fld(sim.FChatID, r.chatID(k)))
		} else if intOf(st["zeroid"]) == 1 {
			f = append(f, sim.Fld(sim.FChatID, []byte{0, 0, 0, 0})) // a zero chat ID means the public chat
		}
		r.send(slot, op, sim.TChatSend, f...)
	case "invitenew":
		r.send(slot, op, sim.TInviteNewChat, sim.Fld(sim.FUserID, r.uidOf(intOf(st["target"]))))
	case "invite":
		r.send(slot, op, sim.TInviteToChat, sim.Fld(sim.FUserID, r.uidOf(intOf(st["target"]))), sim.Fld(sim.FChatID, r.chatID(intOf(st["chat"]))))
	case "reject":
		r.send(slot, op, sim.TRejectChatInvite, sim.Fld(sim.FChatID, r.chatID(intOf(st["chat"]))))
	case "join":
		r.send(slot, op, sim.TJoinChat, sim.Fld(sim.FChatID, r.chatID(intOf(st["chat"]))))
	case "leave":
		r.send(slot, op, sim.TLeaveChat, sim.Fld(sim.FChatID, r.chatID(intOf(st["chat"]))))
	case "subject":
		r.send(slot, op, sim.TSetChatSubject, sim.Fld(sim.FChatID, r.chatID(intOf(st["chat"]))), sim.Fld(sim.FChatSubject, bytesOf(st["subject"])))
	case "pm":
		r.send(slot, op, sim.TSendInstantMsg, sim.Fld(sim.FUserID, r.uidOf(intOf(st["target"]))), sim.Fld(sim.FOptions, []byte{0, 1}), sim.Fld(sim.FData, bytesOf(st["msg"])))
	case "broadcast":
		r.send(slot, op, sim.TUserBroadcast, sim.Fld(sim.FData, bytesOf(st["msg"])))
	case "getinfo":
		r.send(slot, op, sim.TGetClientInfoText, sim.Fld(sim.FUserID, r.uidOf(intOf(st["target"]))))
	case "setuser":
		acc := sim.AccessBits(intsOf(st["acc"])...)
		r.send(slot, op, sim.TSetUser, sim.Fld(sim.FUserLogin, sim.Obfuscate([]byte(st["login"].(string)))), sim.Fld(sim.FUserName, bytesOf(st["name"])),
			sim.Fld(sim.FUserPassword, func() []byte {
				if intOf(st["pwset"]) == 1 {
					return sim.Obfuscate(bytesOf(st["newpw"]))
				}
				return []byte{0}
			}()), sim.Fld(sim.FUserAccess, acc[:]))
	case "kick":
		tg := intOf(st["target"])
		f := []sim.F{sim.Fld(sim.FUserID, r.uidOf(tg))}
		if b := intOf(st["ban"]); b != 0 {
			f = append(f, sim.Fld(sim.FOptions, sim.U16(b)))
		}
		id := r.send(slot, op, sim.TDisconnectUser, f...)
		rep, err := c.WaitFor(func(t sim.Tx) bool { return t.IsReply == 1 && t.ID == id }, 10*time.Second)
		if err != nil {
			// no reply (the requester's connection was closed, or nothing came): an observation, not a harness failure
			rep.Err = 1
		}
		if rep.Err == 0 {
			// the victim is closed about a second later; wait for its handler to finish (bounded)
			r.cl[tg].WaitServerDone(6 * time.Second)
		}
		ev["bancls"] = r.banClass(r.ips[tg])
		if rep.Err == 0 && intOf(st["ban"]) != 0 {
			delete(r.soon, r.ips[tg])
		}
	case "banadd":
		ip, _ := st["addr"].(string)
		var until *time.Time
		now := time.Now()
		delete(r.soon, ip)
		switch st["class"] {
		case "perm":
		case "future":
			t := now.Add(30 * time.Minute)
			until = &t
		case "soon":
			t := now.Add(4 * time.Second)
			until = &t
			r.soon[ip] = t
			r.everSoon = append(r.everSoon, t)
		case "past":
			t := now.Add(-time.Second)
			until = &t
		}
		if err := r.w.Bans.Add(ip, until); err != nil {
			return err
		}
	case "wait":
		// beyond the end of every short ban planted so far, also of those replaced by another ban meanwhile
		for _, t := range r.everSoon {
			if d := time.Until(t); d > -150*time.Millisecond {
				time.Sleep(d + 150*time.Millisecond)
			}
		}
		r.everSoon = nil
		for ip, t := range r.soon {
			if d := time.Until(t); d > -150*time.Millisecond {
				time.Sleep(d + 150*time.Millisecond)
			}
			delete(r.soon, ip)
		}
	case "churn":
		// n connections come and go through the real registry (each consumes a user ID)
		n := intOf(st["n"])
		live := map[int]bool{}
		for _, s := range r.liveSlots() {
			live[r.ids[s]] = true
		}
		dup := []int{}
		for i := 0; i < n; i++ {
			cc := r.w.Srv.NewClientConn(nopConn{}, "10.250.0.1:1")
			id := int(cc.ID[0])<<8 | int(cc.ID[1])
			if live[id] {
				// the registry handed out the ID of a connected user (and replaced its entry): observed, and the
				// run ends here because the server's registry no longer matches its connections
				dup = append(dup, id)
				break
			}
			r.w.Srv.ClientMgr.Delete(cc.ID)
		}
		ev["dup"] = dup
		if len(dup) > 0 {
			r.abort = true
		}
	case "idle":
	case "rawfail":
		return r.rawFail(st, ev)
	case "restart":
		nb, err := r.w.Reload()
		if err != nil {
			return err
		}
		_ = nb
	default:
		return fmt.Errorf("unknown op %q", op)
	}
	return nil
}

// expireIfDue: time is the environment: a planted short ban that has run out in real time is reported as an event.
func (r *srvRun) expireIfDue(ip string) {
	if t, ok := r.soon[ip]; ok {
		// a wide ambiguous window: if less than 1.5 s of the ban are left the driver waits it out, so that the
		// server's own clock reading cannot disagree with the reported class even on a heavily loaded machine
		if d := time.Until(t); d < 1500*time.Millisecond {
			if d > -150*time.Millisecond {
				time.Sleep(d + 150*time.Millisecond)
			}
			delete(r.soon, ip)
			r.extra = append(r.extra, map[string]any{"op": "expire", "addr": ip})
		}
	}
}

// banClass reads the ban list file and classifies the entry of ip relative to now.
func (r *srvRun) banClass(ip string) string {
	m, err := sim.ReadBanFile(r.w.Config + "/Banlist.yaml")
	if err != nil {
		return "unreadable"
	}
	e, ok := m[ip]
	if !ok {
		return "none"
	}
	if e == nil {
		return "perm"
	}
	d := time.Until(*e)
	switch {
	case d > 29*time.Minute && d < 31*time.Minute:
		return "future"
	case d > 0:
		return "soon"
	default:
		return "past"
	}
}

type nopConn struct{}

func (nopConn) Read(p []byte) (int, error)  { select {} }
func (nopConn) Write(p []byte) (int, error) { return len(p), nil }
func (nopConn) Close() error                { return nil }

// matches decides independently of the server whether (login, password) are valid credentials: the account file
// of the login (guest for the empty login) must exist and its stored bcrypt hash must verify the obfuscated
// password bytes as sent on the wire.
func (r *srvRun) matches(login string, pw []byte) bool {
	if login == "" {
		login = "guest"
	}
	return sim.FileCredentialsOK(r.w.Config+"/Users", login, pw)
}

func (r *srvRun) rawFail(st map[string]any, ev map[string]any) error {
	slot := intOf(st["c"])
	ip, _ := st["addr"].(string)
	r.port++
	before, _ := sim.Snapshot(r.w.Dir)
	c := r.w.Dial(fmt.Sprintf("%s:%d", ip, r.port))
	r.cl[slot] = c
	r.ips[slot] = ip
	r.pending[slot] = map[uint32]string{}
	r.settle[slot] = map[uint32]bool{}
	hs := append([]byte(nil), sim.HandshakeBytes...)
	switch st["hs"] {
	case "badproto":
		copy(hs, "XRTP")
	case "badsub":
		copy(hs[4:], "XOTL")
	case "short":
		hs = hs[:7]
	case "lower":
		copy(hs, "trtphotl") // the identifiers are case-sensitive
	case "mixed":
		copy(hs, "TRTPhotl")
	}
	login, _ := st["login"].(string)
	pw := bytesOf(st["pw"])
	m := r.matches(login, pw)
	ev["matches"] = m
	if m && st["hs"] == "ok" {
		// valid credentials: this is not a failing login; make it fail on the password instead
		pw = append(pw, 0x7f)
		ev["pw"] = sim.Ints(pw)
		ev["matches"] = r.matches(login, pw)
	}
	var buf []byte
	buf = append(buf, hs...)
	sentFirst := st["hs"] != "short"
	if sentFirst {
		first := sim.NewTx(sim.TLogin, 7, sim.Fld(sim.FUserLogin, sim.Obfuscate([]byte(login))), sim.Fld(sim.FUserPassword, sim.Obfuscate(pw)),
			sim.Fld(sim.FUserName, []byte("intruder")), sim.Fld(sim.FUserIconID, []byte{0, 9}))
		buf = append(buf, first.Encode()...)
		// transactions appended by the unauthenticated peer: none of them may be executed or answered
		tr := []sim.Tx{
			sim.NewTx(sim.TChatSend, 8, sim.Fld(sim.FData, []byte("pre-login chat"))),
			sim.NewTx(sim.TNewUser, 9, sim.Fld(sim.FUserLogin, sim.Obfuscate([]byte("evil"))), sim.Fld(sim.FUserName, []byte("evil")), sim.Fld(sim.FUserPassword, sim.Obfuscate([]byte("x"))), sim.Fld(sim.FUserAccess, make([]byte, 8))),
			sim.NewTx(sim.TNewFolder, 10, sim.Fld(sim.FFileName, []byte("evil-folder"))),
			sim.NewTx(sim.TOldPostNews, 11, sim.Fld(sim.FData, []byte("evil post"))),
			sim.NewTx(sim.TUserBroadcast, 12, sim.Fld(sim.FData, []byte("evil broadcast"))),
			sim.NewTx(sim.TGetUserNameList, 13),
		}
		for i := 0; i < intOf(st["trailing"]) && i < len(tr); i++ {
			buf = append(buf, tr[i].Encode()...)
		}
	}
	ev["sentFirst"] = sentFirst
	c.SendRaw(buf)
	if st["hs"] == "short" {
		c.CloseWrite()
	}
	if !c.WaitServerDone(10 * time.Second) {
		// the server keeps the connection: observed as "not closed" below
		_ = c
	}
	after, _ := sim.Snapshot(r.w.Dir)
	ev["stateChanged"] = len(sim.SnapDiff(before, after)) > 0
	return nil
}

// decorateScript replaces the data values of a TLC-generated script by seeded random data of interesting sizes
// (the structure of the script - who does what to whom - is kept, so it stays a behaviour of the specification).
func decorateScript(sc *srvScript, seed int64) {
	rng := newRng(seed)
	name := func() []int {
		n := []int{0, 1, 5, 12, 13, 14, 20, 31, 32, 40, 255}[rng.Intn(11)]
		b := make([]int, n)
		for i := range b {
			b[i] = 33 + rng.Intn(94) // printable ASCII without space
		}
		return b
	}
	blob := func() []int {
		n := []int{0, 1, 2, 50, 300, 8170, 8173, 8174, 8175, 8176, 8180, 8192, 8200, 20000}[rng.Intn(14)]
		b := make([]int, n)
		for i := range b {
			b[i] = rng.Intn(256)
		}
		return b
	}
	short := func() []int {
		n := rng.Intn(40)
		b := make([]int, n)
		for i := range b {
			b[i] = rng.Intn(256)
		}
		return b
	}
	// passwords: every non-empty password of the script is padded (the same way everywhere, so equal stays equal and
	// different stays different - in the LAST byte) to a length at or next to bcrypt's 72-byte limit
	if padTo := []int{0, 0, 40, 71, 72, 72}[rng.Intn(6)]; padTo > 0 {
		pad := func(v []int) []int {
			if len(v) == 0 || len(v) >= padTo {
				return v
			}
			b := make([]int, 0, padTo)
			for i := 0; i < padTo-len(v); i++ {
				b = append(b, 65+i%23)
			}
			return append(b, v...)
		}
		for l, a := range sc.World.Accts {
			a.Pw = pad(a.Pw)
			sc.World.Accts[l] = a
		}
		for _, st := range sc.Steps {
			for _, k := range []string{"pw", "newpw"} {
				if v, ok := st[k]; ok {
					st[k] = pad(sim.Ints(bytesOf(v)))
				}
			}
		}
	}
	for _, st := range sc.Steps {
		switch st["op"] {
		case "login", "agreed", "setinfo":
			if _, ok := st["name"]; ok {
				st["name"] = name()
			}
			if _, ok := st["auto"]; ok {
				st["auto"] = short()
			}
			if st["op"] != "login" || st["flow"] == "old" {
				st["icon"] = rng.Intn(65536)
			}
		case "chat", "broadcast":
			st["msg"] = blob()
		case "pm":
			st["msg"] = short()
		case "subject":
			st["subject"] = short()
		}
	}
}

func newRng(seed int64) *rand.Rand { return rand.New(rand.NewSource(seed)) }
