package props

import (
	"bytes"
	"fmt"
	"sync"
	"time"

	"verifharness/sim"
)

// chatStorm: a private chat with permanent members, members that keep joining and leaving, and outsiders; the
// permanent members talk concurrently.  Records how often each line reached each permanent member / outsider.
func (r *srvRun) chatStorm(st map[string]any, ev map[string]any) error {
	nperm, nchurn, nout, nlines := intOf(st["members"]), intOf(st["churners"]), intOf(st["outsiders"]), intOf(st["lines"])
	mk := func(name string) (*sim.Client, error) {
		c := r.w.Dial("")
		_, err := c.Login(sim.LoginOpts{Login: "adm", Password: r.admPw, Name: name, Old: true})
		return c, err
	}
	var perm, churn, outs []*sim.Client
	for i := 0; i < nperm+nchurn+nout; i++ {
		c, err := mk(fmt.Sprintf("s%d", i))
		if err != nil {
			return fmt.Errorf("storm login: %w", err)
		}
		switch {
		case i < nperm:
			perm = append(perm, c)
		case i < nperm+nchurn:
			churn = append(churn, c)
		default:
			outs = append(outs, c)
		}
	}
	rep, err := perm[0].Request(sim.TInviteNewChat, sim.Fld(sim.FUserID, sim.U16(perm[1].ID())))
	if err != nil {
		return err
	}
	chat, _ := rep.Get(sim.FChatID)
	for _, c := range append(append([]*sim.Client{}, perm[1:]...), churn...) {
		if _, err := c.Request(sim.TJoinChat, sim.Fld(sim.FChatID, chat)); err != nil {
			return err
		}
	}
	all := append(append(append([]*sim.Client{}, perm...), churn...), outs...)
	for _, c := range all {
		c.Settle()
		c.Drain()
	}
	var wg sync.WaitGroup
	stop := make(chan struct{})
	for _, c := range churn {
		wg.Add(1)
		go func(c *sim.Client) {
			defer wg.Done()
			for {
				select {
				case <-stop:
					return
				default:
				}
				c.Send(sim.TLeaveChat, sim.Fld(sim.FChatID, chat))
				c.Request(sim.TJoinChat, sim.Fld(sim.FChatID, chat))
			}
		}(c)
	}
	var talk sync.WaitGroup
	for i, c := range perm {
		talk.Add(1)
		go func(i int, c *sim.Client) {
			defer talk.Done()
			for j := 0; j < nlines; j++ {
				c.Send(sim.TChatSend, sim.Fld(sim.FChatID, chat), sim.Fld(sim.FData, []byte(fmt.Sprintf("<<L%d-%d>>", i, j))))
			}
			c.Settle()
		}(i, c)
	}
	talk.Wait()
	close(stop)
	wg.Wait()
	for _, c := range all {
		c.Settle()
	}
	counts := [][]any{}
	tally := func(kind string, cs []*sim.Client) {
		for _, c := range cs {
			got := map[string]int{}
			for _, t := range c.Drain() {
				if t.Type == sim.TChatMsg {
					d, _ := t.Get(sim.FData)
					if a := bytes.Index(d, []byte("<<L")); a >= 0 {
						if b := bytes.Index(d[a:], []byte(">>")); b > 0 {
							got[string(d[a:a+b+2])]++
						}
					}
				}
			}
			for i := range perm {
				for j := 0; j < nlines; j++ {
					tag := fmt.Sprintf("<<L%d-%d>>", i, j)
					counts = append(counts, []any{tag, kind, got[tag]})
				}
			}
		}
	}
	tally("perm", perm)
	tally("out", outs)
	ev["counts"] = counts
	for _, c := range all {
		c.Close()
	}
	for _, c := range all {
		c.WaitServerDone(5 * time.Second)
	}
	return nil
}

// banStorm: several administrators ban different users at the same moment; then the ban list is reloaded from its
// file (restart) and every banned address knocks at the door.
func (r *srvRun) banStorm(st map[string]any, ev map[string]any) error {
	k := intOf(st["n"])
	type pair struct {
		admin, victim *sim.Client
		ip            string
	}
	var ps []pair
	for i := 0; i < k; i++ {
		a := r.w.Dial(fmt.Sprintf("10.50.0.%d:%d", i+1, 3000+i))
		if _, err := a.Login(sim.LoginOpts{Login: "adm", Password: r.admPw, Name: fmt.Sprintf("a%d", i), Old: true}); err != nil {
			return err
		}
		ip := fmt.Sprintf("10.60.%d.%d", i/200, i%200+1)
		v := r.w.Dial(fmt.Sprintf("%s:%d", ip, 4000+i))
		if _, err := v.Login(sim.LoginOpts{Login: "", Password: "", Name: fmt.Sprintf("v%d", i), Old: true}); err != nil {
			return err
		}
		ps = append(ps, pair{a, v, ip})
	}
	start := make(chan struct{})
	var wg sync.WaitGroup
	for _, p := range ps {
		wg.Add(1)
		go func(p pair) {
			defer wg.Done()
			<-start
			p.admin.Request(sim.TDisconnectUser, sim.Fld(sim.FUserID, sim.U16(p.victim.ID())), sim.Fld(sim.FOptions, sim.U16(2)))
		}(p)
	}
	close(start)
	wg.Wait()
	_, err := r.w.Reload()
	ev["loadOK"] = err == nil
	banned, refused := []string{}, []string{}
	var mu sync.Mutex
	var wg2 sync.WaitGroup
	for i, p := range ps {
		banned = append(banned, p.ip)
		if err != nil {
			continue
		}
		wg2.Add(1)
		go func(i int, ip string) {
			defer wg2.Done()
			c := r.w.Dial(fmt.Sprintf("%s:%d", ip, 5000+i))
			if c.Handshake(5*time.Second) != nil {
				return
			}
			c.WaitServerIdleOrDone(5 * time.Second)
			if c.ServerDone() {
				mu.Lock()
				refused = append(refused, ip)
				mu.Unlock()
			} else {
				c.Close()
			}
		}(i, p.ip)
	}
	wg2.Wait()
	ev["banned"], ev["refused"] = banned, refused
	for _, p := range ps {
		p.admin.Close()
		p.victim.Close()
	}
	return nil
}
