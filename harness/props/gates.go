package props

import (
	"sync"
	"time"

	"github.com/jhalter/mobius/hotline"
	"verifharness/sim"
)

// gates park one chosen call of one connection's handler goroutine (attributed by goroutine id) until released.
type gates struct {
	mu      sync.Mutex
	slotOf  map[int64]int
	armed   map[string]map[int]*gatePoint // kind -> slot -> point
}

type gatePoint struct {
	arrived chan struct{}
	release chan struct{}
	once    sync.Once
}

func newGates() *gates {
	return &gates{slotOf: map[int64]int{}, armed: map[string]map[int]*gatePoint{"amget": {}, "cmdel": {}}}
}

func (g *gates) bind(slot int) func(se *sim.End) {
	return func(se *sim.End) {
		var once sync.Once
		se.ReadHook = func() {
			once.Do(func() {
				g.mu.Lock()
				g.slotOf[sim.GID()] = slot
				g.mu.Unlock()
			})
		}
	}
}

func (g *gates) arm(kind string, slot int) *gatePoint {
	p := &gatePoint{arrived: make(chan struct{}), release: make(chan struct{})}
	g.mu.Lock()
	g.armed[kind][slot] = p
	g.mu.Unlock()
	return p
}

// pass is called inside the wrapped call: parks if the calling goroutine's connection is armed for kind.
func (g *gates) pass(kind string) {
	g.mu.Lock()
	if len(g.armed[kind]) == 0 { // nothing is waiting for this kind of call: no need to identify the caller
		g.mu.Unlock()
		return
	}
	slot, ok := g.slotOf[sim.GID()]
	var p *gatePoint
	if ok {
		p = g.armed[kind][slot]
		delete(g.armed[kind], slot)
	}
	g.mu.Unlock()
	if p != nil {
		close(p.arrived)
		<-p.release
	}
}

func (p *gatePoint) waitArrived(d time.Duration) bool {
	select {
	case <-p.arrived:
		return true
	case <-time.After(d):
		return false
	}
}

func (p *gatePoint) open() { p.once.Do(func() { close(p.release) }) }

type gateAM struct {
	hotline.AccountManager
	g *gates
}

func (a *gateAM) Get(login string) *hotline.Account {
	a.g.pass("amget")
	return a.AccountManager.Get(login)
}

type gateCM struct {
	hotline.ClientManager
	g *gates
}

func (c *gateCM) Delete(id hotline.ClientID) {
	c.g.pass("cmdel")
	c.ClientManager.Delete(id)
}
