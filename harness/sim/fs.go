package sim

import (
	"crypto/sha256"
	"encoding/hex"
	"fmt"
	"io/fs"
	"os"
	"path/filepath"
	"sort"
)

// Entry describes one node of a directory snapshot.
type Entry struct {
	Path   string `json:"path"` // relative to the snapshot root, "/"-separated
	Kind   string `json:"kind"` // file | dir | link | other
	Size   int64  `json:"size"`
	Hash   string `json:"hash,omitempty"`
	Target string `json:"target,omitempty"`
}

// Snapshot lists everything below root (root itself excluded), sorted by path.  Symlinks are not followed.
func Snapshot(root string) ([]Entry, error) {
	var out []Entry
	err := filepath.WalkDir(root, func(p string, d fs.DirEntry, err error) error {
		if err != nil {
			return err
		}
		if p == root {
			return nil
		}
		rel, _ := filepath.Rel(root, p)
		e := Entry{Path: filepath.ToSlash(rel)}
		info, err := os.Lstat(p)
		if err != nil {
			return err
		}
		switch {
		case info.Mode()&os.ModeSymlink != 0:
			e.Kind = "link"
			e.Target, _ = os.Readlink(p)
		case info.IsDir():
			e.Kind = "dir"
		case info.Mode().IsRegular():
			e.Kind = "file"
			e.Size = info.Size()
			b, err := os.ReadFile(p)
			if err != nil {
				return err
			}
			h := sha256.Sum256(b)
			e.Hash = hex.EncodeToString(h[:8])
		default:
			e.Kind = "other"
		}
		out = append(out, e)
		return nil
	})
	sort.Slice(out, func(i, j int) bool { return out[i].Path < out[j].Path })
	return out, err
}

// SnapKey renders a snapshot as one comparable string.
func SnapKey(es []Entry) string {
	s := ""
	for _, e := range es {
		s += fmt.Sprintf("%s|%s|%d|%s|%s\n", e.Path, e.Kind, e.Size, e.Hash, e.Target)
	}
	return s
}

// SnapDiff returns the paths that differ between two snapshots (added, removed or changed).
func SnapDiff(a, b []Entry) []string {
	am := map[string]Entry{}
	for _, e := range a {
		am[e.Path] = e
	}
	var d []string
	seen := map[string]bool{}
	for _, e := range b {
		seen[e.Path] = true
		if o, ok := am[e.Path]; !ok {
			d = append(d, "+"+e.Path)
		} else if o != e {
			d = append(d, "~"+e.Path)
		}
	}
	for _, e := range a {
		if !seen[e.Path] {
			d = append(d, "-"+e.Path)
		}
	}
	sort.Strings(d)
	return d
}
