package sim

import (
	"os"
	"time"

	"gopkg.in/yaml.v3"
)

// ReadBanFile parses Banlist.yaml independently of the server: address -> expiry (nil = permanent).
func ReadBanFile(path string) (map[string]*time.Time, error) {
	b, err := os.ReadFile(path)
	if os.IsNotExist(err) {
		return map[string]*time.Time{}, nil
	}
	if err != nil {
		return nil, err
	}
	m := map[string]*time.Time{}
	if err := yaml.Unmarshal(b, &m); err != nil {
		return nil, err
	}
	return m, nil
}
