package sim

import (
	"os"
	"runtime"
	"strconv"
	"strings"
	"sync"
	"time"
)

// Patience scales a waiting bound by how overloaded the machine is (load average per core, re-read every few seconds;
// between 1 and 5, or VERIF_PATIENCE).  Waiting bounds only ever decide how long a missing reaction is waited for:
// on a machine running several checks at once the real code is slower, not different.
func Patience(d time.Duration) time.Duration {
	patienceMu.Lock()
	if time.Since(patienceAt) > 5*time.Second {
		patienceAt = time.Now()
		f := 1.0
		if v := os.Getenv("VERIF_PATIENCE"); v != "" {
			if x, err := strconv.ParseFloat(v, 64); err == nil && x >= 1 {
				f = x
			}
		} else if b, err := os.ReadFile("/proc/loadavg"); err == nil {
			if fl := strings.Fields(string(b)); len(fl) > 0 {
				if l, err := strconv.ParseFloat(fl[0], 64); err == nil {
					f = l / float64(runtime.NumCPU())
				}
			}
			if f < 1 {
				f = 1
			}
			if f > 5 {
				f = 5
			}
		}
		patienceFactor = f
	}
	f := patienceFactor
	patienceMu.Unlock()
	return time.Duration(float64(d) * f)
}

var (
	patienceMu     sync.Mutex
	patienceAt     time.Time
	patienceFactor = 1.0
)
