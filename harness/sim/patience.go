package sim

import (
	"os"
	"runtime"
	"strconv"
	"strings"
	"sync"
	"time"
)

// Patience scales a waiting bound by how overloaded the machine is (load average per core, read once per process;
// between 1 and 5, or VERIF_PATIENCE).  Waiting bounds only ever decide how long a missing reaction is waited for:
// on a machine running several checks at once the real code is slower, not different.
func Patience(d time.Duration) time.Duration {
	patienceOnce.Do(func() {
		patienceFactor = 1
		if v := os.Getenv("VERIF_PATIENCE"); v != "" {
			if f, err := strconv.ParseFloat(v, 64); err == nil && f >= 1 {
				patienceFactor = f
				return
			}
		}
		if b, err := os.ReadFile("/proc/loadavg"); err == nil {
			if f := strings.Fields(string(b)); len(f) > 0 {
				if l, err := strconv.ParseFloat(f[0], 64); err == nil {
					patienceFactor = l / float64(runtime.NumCPU())
				}
			}
		}
		if patienceFactor < 1 {
			patienceFactor = 1
		}
		if patienceFactor > 5 {
			patienceFactor = 5
		}
	})
	return time.Duration(float64(d) * patienceFactor)
}

var (
	patienceOnce   sync.Once
	patienceFactor float64
)
