package sim

import (
	"runtime"
	"strconv"
	"strings"
)

// GID returns the id of the calling goroutine (parsed from the stack header; used only to attribute store calls
// to the connection whose handler makes them).
func GID() int64 {
	var buf [64]byte
	n := runtime.Stack(buf[:], false)
	f := strings.Fields(string(buf[:n]))
	if len(f) >= 2 {
		id, _ := strconv.ParseInt(f[1], 10, 64)
		return id
	}
	return -1
}
