package sim

import (
	"os"
	"path/filepath"

	"golang.org/x/crypto/bcrypt"
	"gopkg.in/yaml.v3"
)

// FileCredentialsOK reads Users/<login>.yaml independently of the server and reports whether the stored bcrypt hash
// verifies the password as it is sent on the wire (obfuscated bytes).
func FileCredentialsOK(usersDir, login string, clearPw []byte) bool {
	if login == "" || filepath.Base(login) != login {
		return false
	}
	b, err := os.ReadFile(filepath.Join(usersDir, login+".yaml"))
	if err != nil {
		return false
	}
	var a struct {
		Login    string `yaml:"Login"`
		Password string `yaml:"Password"`
	}
	if yaml.Unmarshal(b, &a) != nil {
		return false
	}
	return bcrypt.CompareHashAndPassword([]byte(a.Password), Obfuscate(clearPw)) == nil
}
