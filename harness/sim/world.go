package sim

import (
	"context"
	"errors"
	"fmt"
	"io"
	"log/slog"
	"os"
	"path/filepath"
	"strings"
	"sync"
	"sync/atomic"
	"time"

	"github.com/jhalter/mobius/hotline"
	"github.com/jhalter/mobius/verifexport"
	"golang.org/x/crypto/bcrypt"
)

// PrivNames is the account-file key of each defined privilege number (Authz.tla carries the same table; C16
// checks the real code against the specification's copy, this one is only used to set worlds up).
var PrivNames = map[int]string{
	0: "DeleteFile", 1: "UploadFile", 2: "DownloadFile", 3: "RenameFile", 4: "MoveFile", 5: "CreateFolder",
	6: "DeleteFolder", 7: "RenameFolder", 8: "MoveFolder", 9: "ReadChat", 10: "SendChat", 11: "OpenChat",
	12: "CloseChat", 13: "ShowInList", 14: "CreateUser", 15: "DeleteUser", 16: "OpenUser", 17: "ModifyUser",
	18: "ChangeOwnPass", 20: "NewsReadArt", 21: "NewsPostArt", 22: "DisconnectUser", 23: "CannotBeDisconnected",
	24: "GetClientInfo", 25: "UploadAnywhere", 26: "AnyName", 27: "NoAgreement", 28: "SetFileComment",
	29: "SetFolderComment", 30: "ViewDropBoxes", 31: "MakeAlias", 32: "Broadcast", 33: "NewsDeleteArt",
	34: "NewsCreateCat", 35: "NewsDeleteCat", 36: "NewsCreateFldr", 37: "NewsDeleteFldr", 38: "UploadFolder",
	39: "DownloadFolder", 40: "SendPrivMsg",
}

func BitSet(a [8]byte, i int) bool { return a[i/8]&(1<<uint(7-i%8)) != 0 }

// DefinedOnly clears the bits that are not defined privileges (they cannot be represented in an account file).
func DefinedOnly(a [8]byte) [8]byte {
	var o [8]byte
	for i := range PrivNames {
		if BitSet(a, i) {
			o[i/8] |= 1 << uint(7-i%8)
		}
	}
	return o
}

type Acct struct {
	Login    string
	Name     string
	RawHash  *string // if set: written verbatim as the stored password (e.g. an unusable hash)
	Password string  // clear text as the user types it
	Access   [8]byte
	FileRoot string
}

func yamlQuote(s string) string {
	var b strings.Builder
	b.WriteByte('"')
	for _, c := range []byte(s) {
		switch {
		case c == '"' || c == '\\':
			b.WriteByte('\\')
			b.WriteByte(c)
		case c < 0x20 || c >= 0x7f:
			fmt.Fprintf(&b, "\\x%02x", c)
		default:
			b.WriteByte(c)
		}
	}
	b.WriteByte('"')
	return b.String()
}

// HashPassword is how a password is stored: bcrypt over the obfuscated bytes the client sends.
func HashPassword(clear string) string {
	h, _ := bcrypt.GenerateFromPassword(Obfuscate([]byte(clear)), bcrypt.MinCost)
	return string(h)
}

// AccountYAML renders an account file in the named-flag format.
func AccountYAML(a Acct) string {
	var b strings.Builder
	stored := ""
	if a.RawHash != nil {
		stored = *a.RawHash
	} else {
		stored = HashPassword(a.Password)
	}
	fmt.Fprintf(&b, "Login: %s\nName: %s\nPassword: %s\nAccess:\n", yamlQuote(a.Login), yamlQuote(a.Name), yamlQuote(stored))
	// DownloadFile first: the loader recognises the named format by this key.
	order := []int{2, 39, 1, 38, 0, 3, 4, 5, 6, 7, 8, 9, 10, 11, 12, 13, 14, 15, 16, 17, 18, 20, 21, 22, 23, 24, 25, 26, 27, 28, 29, 30, 31, 32, 33, 34, 35, 36, 37, 40}
	for _, i := range order {
		fmt.Fprintf(&b, "    %s: %v\n", PrivNames[i], BitSet(a.Access, i))
	}
	fmt.Fprintf(&b, "FileRoot: %s\n", yamlQuote(a.FileRoot))
	return b.String()
}

type WorldOpts struct {
	Accounts      []Acct
	Agreement     string
	Board         string
	NewsYAML      string
	IgnoreFiles   []string // nil = default patterns
	NoIgnore      bool
	PreserveForks bool
	RealOutbox    bool // run the real processOutbox (one goroutine per transaction) instead of the in-order pump
	NoPump        bool // the driver consumes the outbox itself
	ServerName    string
	BaseDir       string // parent for the sandbox (default: $VERIF_SCRATCH or /var/tmp)
	Banner        []byte
	BannerFile    string
}

type World struct {
	Dir    string // sandbox: contains config/, root/, and whatever canaries the driver adds
	Config string
	Root   string
	Srv    *hotline.Server
	AM     *verifexport.YAMLAccountManager
	Bans   *verifexport.BanFile
	Board  *verifexport.FlatNews
	News   *verifexport.ThreadedNewsYAML
	Agree  *verifexport.Agreement

	stop     chan struct{}
	pumped   atomic.Int64
	wg       sync.WaitGroup
	mu       sync.Mutex
	clients  []*Client
	nextAddr int
}

func Discard() *slog.Logger { return slog.New(slog.NewTextHandler(io.Discard, nil)) }

func ScratchBase() string {
	if d := os.Getenv("VERIF_SCRATCH"); d != "" {
		return d
	}
	return "/var/tmp"
}

func NewWorld(o WorldOpts) (*World, error) {
	base := o.BaseDir
	if base == "" {
		base = ScratchBase()
	}
	dir, err := os.MkdirTemp(base, "vw-")
	if err != nil {
		return nil, err
	}
	w := &World{Dir: dir, Config: filepath.Join(dir, "config"), Root: filepath.Join(dir, "root"), stop: make(chan struct{})}
	if err := os.MkdirAll(filepath.Join(w.Config, "Users"), 0755); err != nil {
		return nil, err
	}
	if err := os.MkdirAll(w.Root, 0755); err != nil {
		return nil, err
	}
	accts := o.Accounts
	if len(accts) == 0 {
		accts = []Acct{{Login: "guest", Name: "guest", Access: AccessBits(2, 9, 10, 11, 20, 21, 26, 40)}, {Login: "admin", Name: "admin", Password: "admin", Access: DefinedOnly(AllAccess())}}
	}
	for _, a := range accts {
		if err := os.WriteFile(filepath.Join(w.Config, "Users", a.Login+".yaml"), []byte(AccountYAML(a)), 0644); err != nil {
			return nil, err
		}
	}
	if err := os.WriteFile(filepath.Join(w.Config, "Agreement.txt"), []byte(o.Agreement), 0644); err != nil {
		return nil, err
	}
	if err := os.WriteFile(filepath.Join(w.Config, "MessageBoard.txt"), []byte(o.Board), 0644); err != nil {
		return nil, err
	}
	news := o.NewsYAML
	if news == "" {
		news = "Categories: {}\n"
	}
	if err := os.WriteFile(filepath.Join(w.Config, "ThreadedNews.yaml"), []byte(news), 0644); err != nil {
		return nil, err
	}
	ignore := o.IgnoreFiles
	if ignore == nil && !o.NoIgnore {
		ignore = []string{`^\.`, `^@`}
	}
	name := o.ServerName
	if name == "" {
		name = "verif"
	}
	cfg := hotline.Config{Name: name, Description: "verif world", FileRoot: w.Root, IgnoreFiles: ignore, PreserveResourceForks: o.PreserveForks, BannerFile: o.BannerFile}
	srv, err := hotline.NewServer(hotline.WithConfig(cfg), hotline.WithLogger(Discard()))
	if err != nil {
		return nil, err
	}
	w.Srv = srv
	srv.Banner = o.Banner
	if w.AM, err = verifexport.NewYAMLAccountManager(filepath.Join(w.Config, "Users")); err != nil {
		return nil, fmt.Errorf("world: accounts: %w", err)
	}
	for _, a := range accts {
		got := w.AM.Get(a.Login)
		if got == nil || [8]byte(got.Access) != DefinedOnly(a.Access) || got.Name != a.Name {
			return nil, fmt.Errorf("world: account %q did not load as written", a.Login)
		}
	}
	srv.AccountManager = w.AM
	if w.Bans, err = verifexport.NewBanFile(filepath.Join(w.Config, "Banlist.yaml")); err != nil {
		return nil, fmt.Errorf("world: bans: %w", err)
	}
	srv.BanList = w.Bans
	if w.Board, err = verifexport.NewFlatNews(filepath.Join(w.Config, "MessageBoard.txt")); err != nil {
		return nil, fmt.Errorf("world: board: %w", err)
	}
	srv.MessageBoard = w.Board
	if w.News, err = verifexport.NewThreadedNewsYAML(filepath.Join(w.Config, "ThreadedNews.yaml")); err != nil {
		return nil, fmt.Errorf("world: news: %w", err)
	}
	srv.ThreadedNewsMgr = w.News
	if w.Agree, err = verifexport.NewAgreement(w.Config, "\r"); err != nil {
		return nil, fmt.Errorf("world: agreement: %w", err)
	}
	srv.Agreement = w.Agree
	verifexport.RegisterHandlers(srv)
	switch {
	case o.NoPump:
	case o.RealOutbox:
		go srv.VerifProcessOutbox()
	default:
		go w.pump()
	}
	return w, nil
}

// pump is the in-order outbox consumer: each transaction is written by the real sendTransaction before the
// next one is taken, so the order of bytes on every connection is the order of production.
func (w *World) pump() {
	ob := w.Srv.VerifOutbox()
	for {
		select {
		case t := <-ob:
			_ = w.Srv.VerifSendTransaction(t)
			w.pumped.Add(1)
		case <-w.stop:
			return
		}
	}
}

func (w *World) Pumped() int64 { return w.pumped.Load() }

// Close ends every connection and removes the sandbox.
func (w *World) Close() {
	w.mu.Lock()
	cs := append([]*Client(nil), w.clients...)
	w.mu.Unlock()
	for _, c := range cs {
		c.Close()
	}
	for _, c := range cs {
		c.WaitServerDone(5 * time.Second)
	}
	close(w.stop)
	_ = os.RemoveAll(w.Dir)
}

// Client is a Hotline client talking to the world's server over an in-memory connection.
type Client struct {
	W        *World
	Addr     string
	conn     *End // client end
	srvEnd   *End
	split    Splitter
	preLeft  int    // handshake-reply bytes still expected before frames start
	Pre      []byte // bytes received before framing started (the handshake reply)
	Inbox    []Tx
	AllBytes []byte // every byte ever received
	nextID   uint32
	done     chan struct{}
	SrvErr   error
	closed   bool
	UserID   int
}

// Dial opens a connection from addr ("ip:port") and starts the real connection handler on the server end.
func (w *World) Dial(addr string) *Client { return w.DialWith(addr, nil) }

// DialWith is Dial with a hook that can prepare the server end of the connection before the handler starts.
func (w *World) DialWith(addr string, prep func(serverEnd *End)) *Client {
	if addr == "" {
		w.mu.Lock()
		w.nextAddr++
		addr = fmt.Sprintf("10.0.%d.%d:%d", w.nextAddr/250, w.nextAddr%250+1, 40000+w.nextAddr)
		w.mu.Unlock()
	}
	ce, se := Pipe()
	if prep != nil {
		prep(se)
	}
	c := &Client{W: w, Addr: addr, conn: ce, srvEnd: se, preLeft: 8, done: make(chan struct{}), nextID: 1}
	w.mu.Lock()
	w.clients = append(w.clients, c)
	w.mu.Unlock()
	go func() {
		defer close(c.done)
		defer se.Close() // Serve closes the socket when the handler returns
		c.SrvErr = w.Srv.VerifHandleNewConnection(context.Background(), se, addr)
	}()
	return c
}

var HandshakeBytes = []byte{'T', 'R', 'T', 'P', 'H', 'O', 'T', 'L', 0, 1, 0, 2}

func (c *Client) SendRaw(b []byte) { _, _ = c.conn.Write(b) }

func (c *Client) Close() {
	if !c.closed {
		c.closed = true
		_ = c.conn.Close()
	}
}

// WaitServerDone waits for the server-side handler of this connection to return.
func (c *Client) WaitServerDone(d time.Duration) bool {
	select {
	case <-c.done:
		return true
	case <-time.After(d):
		return false
	}
}

func (c *Client) ServerDone() bool {
	select {
	case <-c.done:
		return true
	default:
		return false
	}
}

// absorb parses whatever has arrived.  Returns whether the peer has closed.
func (c *Client) absorb() bool {
	b, closed := c.conn.TakeAll()
	if len(b) > 0 {
		c.AllBytes = append(c.AllBytes, b...)
		if c.preLeft > 0 {
			n := c.preLeft
			if n > len(b) {
				n = len(b)
			}
			c.Pre = append(c.Pre, b[:n]...)
			c.preLeft -= n
			b = b[n:]
		}
		if len(b) > 0 {
			c.Inbox = append(c.Inbox, c.split.Feed(b)...)
		}
	}
	return closed
}

// Drain returns and clears the frames received so far (non-blocking).
func (c *Client) Drain() []Tx {
	c.absorb()
	out := c.Inbox
	c.Inbox = nil
	return out
}

// Peek absorbs and returns the inbox without clearing it.
func (c *Client) Peek() []Tx {
	c.absorb()
	return c.Inbox
}

func (c *Client) PendingBytes() int { c.absorb(); return c.split.Pending() }
func (c *Client) Garbage() bool     { return c.split.Garbage }

var ErrTimeout = errors.New("timeout")
var ErrClosed = errors.New("connection closed by server")

// Handshake sends the 12 handshake bytes and waits for the 8-byte reply.
func (c *Client) Handshake(d time.Duration) error {
	c.SendRaw(HandshakeBytes)
	deadline := time.Now().Add(Patience(d))
	for {
		closed := c.absorb()
		if c.preLeft == 0 {
			return nil
		}
		if closed {
			return ErrClosed
		}
		left := time.Until(deadline)
		if left <= 0 {
			return ErrTimeout
		}
		c.conn.WaitData(left)
	}
}

func (c *Client) NextID() uint32 { c.nextID++; return c.nextID }

// Send sends a request and returns its transaction ID.
func (c *Client) Send(typ int, fields ...F) uint32 {
	id := c.NextID()
	c.SendRaw(NewTx(typ, id, fields...).Encode())
	return id
}

// WaitReply waits until a frame with IsReply=1 and the given ID is in the inbox; it is removed and returned.
func (c *Client) WaitReply(id uint32, d time.Duration) (Tx, error) {
	deadline := time.Now().Add(Patience(d))
	for {
		closed := c.absorb()
		for i, t := range c.Inbox {
			if t.IsReply == 1 && t.ID == id {
				c.Inbox = append(c.Inbox[:i:i], c.Inbox[i+1:]...)
				return t, nil
			}
		}
		if closed {
			return Tx{}, ErrClosed
		}
		left := time.Until(deadline)
		if left <= 0 {
			return Tx{}, ErrTimeout
		}
		c.conn.WaitData(left)
	}
}

// WaitFor waits until pred holds for some inbox frame; the frame stays in the inbox.
func (c *Client) WaitFor(pred func(Tx) bool, d time.Duration) (Tx, error) {
	deadline := time.Now().Add(Patience(d))
	for {
		closed := c.absorb()
		for _, t := range c.Inbox {
			if pred(t) {
				return t, nil
			}
		}
		if closed {
			return Tx{}, ErrClosed
		}
		left := time.Until(deadline)
		if left <= 0 {
			return Tx{}, ErrTimeout
		}
		c.conn.WaitData(left)
	}
}

// WaitClosed waits until the server has closed this connection.
func (c *Client) WaitClosed(d time.Duration) bool {
	deadline := time.Now().Add(d)
	for {
		if c.absorb() {
			return true
		}
		left := time.Until(deadline)
		if left <= 0 {
			return false
		}
		c.conn.WaitData(left)
		if have, closed := c.conn.WaitData(0); !have && closed {
			c.absorb()
			return true
		}
	}
}

// Request sends a request and waits for its reply.
func (c *Client) Request(typ int, fields ...F) (Tx, error) {
	id := c.Send(typ, fields...)
	return c.WaitReply(id, 10*time.Second)
}

// Settle makes a keep-alive round trip.  With the in-order pump, when it returns every transaction produced by
// this connection's earlier requests has been written to its recipient.
func (c *Client) Settle() error {
	_, err := c.Request(TKeepAlive)
	return err
}

type LoginOpts struct {
	Login, Password string
	Name            string // when non-empty with Old=true, sent in the login transaction (1.2.3 flow)
	Icon            int
	Old             bool // 1.2.3-style: name in login, no version, no Agreed
	Options         int  // Agreed options bitmap (bit0 refuse PM, bit1 refuse chat, bit2 auto response)
	AutoReply       string
	NoAgreed        bool // 1.5 flow but stop before sending Agreed
}

// Login performs handshake + login (+ Agreed for the 1.5 flow).  Returns the login reply.
func (c *Client) Login(o LoginOpts) (Tx, error) {
	if err := c.Handshake(10 * time.Second); err != nil {
		return Tx{}, fmt.Errorf("handshake: %w", err)
	}
	fields := []F{Fld(FUserLogin, Obfuscate([]byte(o.Login))), Fld(FUserPassword, Obfuscate([]byte(o.Password)))}
	if o.Old {
		fields = append(fields, Fld(FUserName, []byte(o.Name)), Fld(FUserIconID, U16(o.Icon)))
	} else {
		fields = append(fields, Fld(FVersion, U16(190)))
	}
	rep, err := c.Request(TLogin, fields...)
	if err != nil {
		return rep, fmt.Errorf("login: %w", err)
	}
	if rep.Err != 0 {
		return rep, nil
	}
	if !o.Old && !o.NoAgreed {
		af := []F{Fld(FUserName, []byte(o.Name)), Fld(FUserIconID, U16(o.Icon)), Fld(FOptions, U16(o.Options))}
		if o.Options&4 != 0 {
			af = append(af, Fld(FAutomaticResponse, []byte(o.AutoReply)))
		}
		if _, err := c.Request(TAgreed, af...); err != nil {
			return rep, fmt.Errorf("agreed: %w", err)
		}
	}
	if err := c.Settle(); err != nil {
		return rep, fmt.Errorf("settle: %w", err)
	}
	// learn our user ID from the user list
	c.UserID = -1
	return rep, nil
}

// ServerConn finds the server-side ClientConn of this client (by its unique remote address), or nil.
func (c *Client) ServerConn() *hotline.ClientConn {
	for _, cc := range c.W.Srv.ClientMgr.List() {
		if cc.RemoteAddr == c.Addr {
			return cc
		}
	}
	return nil
}

// ID returns the user ID the server assigned to this client, or -1.
func (c *Client) ID() int {
	if cc := c.ServerConn(); cc != nil {
		return int(cc.ID[0])<<8 | int(cc.ID[1])
	}
	return -1
}

// WaitServerIdleOrDone waits until the server-side handler of this connection has either returned or is blocked
// reading with nothing left to read (it has consumed and processed everything sent so far).
func (c *Client) WaitServerIdleOrDone(d time.Duration) error {
	deadline := time.Now().Add(Patience(d))
	for {
		if c.ServerDone() || c.conn.PeerBlocked() {
			return nil
		}
		if time.Now().After(deadline) {
			return fmt.Errorf("server neither idle nor done on %s: %w", c.Addr, ErrTimeout)
		}
		time.Sleep(200 * time.Microsecond)
	}
}

// Reload models a server restart for the ban list: a fresh BanFile is loaded from the same path.
func (w *World) Reload() (*verifexport.BanFile, error) {
	nb, err := verifexport.NewBanFile(filepath.Join(w.Config, "Banlist.yaml"))
	if err != nil {
		return nil, err
	}
	w.Bans = nb
	w.Srv.BanList = nb
	return nb, nil
}

// CloseWrite half-closes the client's sending direction (the server reads EOF after the bytes sent so far).
func (c *Client) CloseWrite() { c.conn.CloseWrite() }
