package sim

import (
	"bufio"
	"encoding/json"
	"os"
	"sync"
)

// Log is an ndjson event log.  Each event is one JSON object on one line; the order of lines is the order of
// Emit calls (serialised by the log's own mutex, never by wall-clock time).
type Log struct {
	mu sync.Mutex
	f  *os.File
	w  *bufio.Writer
	N  int
}

func NewLog(path string) (*Log, error) {
	f, err := os.Create(path)
	if err != nil {
		return nil, err
	}
	return &Log{f: f, w: bufio.NewWriterSize(f, 1<<20)}, nil
}

func (l *Log) Emit(ev map[string]any) {
	b, err := json.Marshal(ev)
	if err != nil {
		panic(err)
	}
	l.mu.Lock()
	l.w.Write(b)
	l.w.WriteByte('\n')
	l.N++
	l.mu.Unlock()
}

// EmitAll writes a batch of events atomically (one scenario's events stay contiguous).
func (l *Log) EmitAll(evs []map[string]any) {
	l.mu.Lock()
	defer l.mu.Unlock()
	for _, ev := range evs {
		b, err := json.Marshal(ev)
		if err != nil {
			panic(err)
		}
		l.w.Write(b)
		l.w.WriteByte('\n')
		l.N++
	}
}

func (l *Log) Close() error {
	l.mu.Lock()
	defer l.mu.Unlock()
	if err := l.w.Flush(); err != nil {
		return err
	}
	return l.f.Close()
}

// Ints converts bytes to a JSON-friendly int slice (TLA+ sees a sequence of naturals).
func Ints(b []byte) []int {
	o := make([]int, len(b))
	for i, c := range b {
		o[i] = int(c)
	}
	return o
}

// ReadNDJSON reads a file of JSON lines into generic maps.
func ReadNDJSON(path string) ([]map[string]any, error) {
	f, err := os.Open(path)
	if err != nil {
		return nil, err
	}
	defer f.Close()
	var out []map[string]any
	sc := bufio.NewScanner(f)
	sc.Buffer(make([]byte, 1<<20), 1<<28)
	for sc.Scan() {
		line := sc.Bytes()
		if len(line) == 0 {
			continue
		}
		var m map[string]any
		if err := json.Unmarshal(line, &m); err != nil {
			return nil, err
		}
		out = append(out, m)
	}
	return out, sc.Err()
}
