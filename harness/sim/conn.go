// Package sim drives the real Mobius server code inside one process: in-memory connections, an
// independent Hotline frame codec, a world builder (real stores on a temp config dir), directory
// snapshots and an ndjson event log.  Nothing in here judges a property: drivers observe, the TLA+
// trace specifications decide.
package sim

import (
	"errors"
	"io"
	"sync"
	"time"
)

// half is one direction of an in-memory connection: an unbounded byte queue.
type half struct {
	mu     sync.Mutex
	cond   *sync.Cond
	buf    []byte
	closed bool
	total  int // bytes ever written
	waiting int // readers blocked on an empty buffer
}

func newHalf() *half {
	h := &half{}
	h.cond = sync.NewCond(&h.mu)
	return h
}

func (h *half) write(p []byte) (int, error) {
	h.mu.Lock()
	defer h.mu.Unlock()
	if h.closed {
		return 0, io.ErrClosedPipe
	}
	h.buf = append(h.buf, p...)
	h.total += len(p)
	h.cond.Broadcast()
	return len(p), nil
}

func (h *half) read(p []byte) (int, error) {
	h.mu.Lock()
	defer h.mu.Unlock()
	for len(h.buf) == 0 && !h.closed {
		h.waiting++
		h.cond.Wait()
		h.waiting--
	}
	if len(h.buf) == 0 {
		return 0, io.EOF
	}
	n := copy(p, h.buf)
	h.buf = h.buf[n:]
	return n, nil
}

func (h *half) close() {
	h.mu.Lock()
	h.closed = true
	h.cond.Broadcast()
	h.mu.Unlock()
}

// takeAll removes and returns everything buffered without blocking.
func (h *half) takeAll() (b []byte, closed bool) {
	h.mu.Lock()
	defer h.mu.Unlock()
	b = h.buf
	h.buf = nil
	return b, h.closed
}

// waitData blocks until data is buffered, the half is closed, or the deadline passes.
func (h *half) waitData(d time.Duration) (have bool, closed bool) {
	deadline := time.Now().Add(d)
	h.mu.Lock()
	defer h.mu.Unlock()
	for len(h.buf) == 0 && !h.closed {
		left := time.Until(deadline)
		if left <= 0 {
			return false, false
		}
		t := time.AfterFunc(left, func() { h.mu.Lock(); h.cond.Broadcast(); h.mu.Unlock() })
		h.cond.Wait()
		t.Stop()
	}
	return len(h.buf) > 0, h.closed
}

// End is one end of an in-memory duplex connection.  Writes never block (unbounded buffer); reads block
// until data arrives or the peer closes.  Close closes both directions, as closing a TCP socket does.
type End struct {
	in, out *half
	// ReadHook, if set, is called at the start of every Read on this end (in the reader's goroutine).
	ReadHook func()
}

func Pipe() (a, b *End) {
	x, y := newHalf(), newHalf()
	return &End{in: x, out: y}, &End{in: y, out: x}
}

func (e *End) Read(p []byte) (int, error) {
	if e.ReadHook != nil {
		e.ReadHook()
	}
	return e.in.read(p)
}
func (e *End) Write(p []byte) (int, error) { return e.out.write(p) }
func (e *End) Close() error {
	e.in.close()
	e.out.close()
	return nil
}

// CloseWrite closes only the sending direction (peer reads EOF after draining).
func (e *End) CloseWrite() { e.out.close() }

// TakeAll returns the bytes received so far without blocking, and whether the peer closed.
func (e *End) TakeAll() ([]byte, bool) { return e.in.takeAll() }

// WaitData blocks until at least one byte can be read, the peer closed, or d elapsed.
func (e *End) WaitData(d time.Duration) (have, closed bool) { return e.in.waitData(d) }

// PeerBlocked reports whether the peer is blocked in Read with nothing left to read: it has consumed everything
// written on this end.
func (e *End) PeerBlocked() bool {
	e.out.mu.Lock()
	defer e.out.mu.Unlock()
	return e.out.waiting > 0 && len(e.out.buf) == 0
}

// Sent is the number of bytes ever written on this end.
func (e *End) Sent() int {
	e.out.mu.Lock()
	defer e.out.mu.Unlock()
	return e.out.total
}

// ScriptConn is a server-side connection whose Read returns exactly the scripted segments of a fixed
// input (or the remainder of the current segment when the caller's buffer is smaller), then io.EOF - or
// ErrCut if Cut is set.  Everything the server writes is collected.  OnRead, if set, is called at the
// start of every Read call with the number of bytes delivered so far.
type ScriptConn struct {
	mu       sync.Mutex
	data     []byte
	segs     []int
	pos      int // bytes delivered
	segLeft  int
	segIdx   int
	Cut      bool
	OnRead   func(delivered int)
	written  []byte
	closed   bool
	closedCh chan struct{}
	// Hold, if non-nil, makes Read block on it once the input is exhausted (instead of EOF) until closed.
	Hold chan struct{}
}

var ErrCut = errors.New("connection reset by peer (scripted cut)")

func NewScriptConn(data []byte, segs []int) *ScriptConn {
	return &ScriptConn{data: data, segs: segs, closedCh: make(chan struct{})}
}

func (c *ScriptConn) Read(p []byte) (int, error) {
	c.mu.Lock()
	if c.OnRead != nil {
		f, d := c.OnRead, c.pos
		c.mu.Unlock()
		f(d)
		c.mu.Lock()
	}
	if c.closed {
		c.mu.Unlock()
		return 0, io.ErrClosedPipe
	}
	if c.pos >= len(c.data) {
		hold := c.Hold
		cut := c.Cut
		c.mu.Unlock()
		if hold != nil {
			select {
			case <-hold:
			case <-c.closedCh:
				return 0, io.ErrClosedPipe
			}
		}
		if cut {
			return 0, ErrCut
		}
		return 0, io.EOF
	}
	defer c.mu.Unlock()
	if c.segLeft == 0 {
		if c.segIdx < len(c.segs) {
			c.segLeft = c.segs[c.segIdx]
			c.segIdx++
		} else {
			c.segLeft = len(c.data) - c.pos
		}
		if c.segLeft <= 0 {
			c.segLeft = 1
		}
	}
	n := c.segLeft
	if n > len(p) {
		n = len(p)
	}
	if n > len(c.data)-c.pos {
		n = len(c.data) - c.pos
	}
	copy(p, c.data[c.pos:c.pos+n])
	c.pos += n
	c.segLeft -= n
	return n, nil
}

func (c *ScriptConn) Write(p []byte) (int, error) {
	c.mu.Lock()
	defer c.mu.Unlock()
	if c.closed {
		return 0, io.ErrClosedPipe
	}
	c.written = append(c.written, p...)
	return len(p), nil
}

func (c *ScriptConn) Close() error {
	c.mu.Lock()
	defer c.mu.Unlock()
	if !c.closed {
		c.closed = true
		close(c.closedCh)
	}
	return nil
}

func (c *ScriptConn) Written() []byte {
	c.mu.Lock()
	defer c.mu.Unlock()
	return append([]byte(nil), c.written...)
}

func (c *ScriptConn) Delivered() int {
	c.mu.Lock()
	defer c.mu.Unlock()
	return c.pos
}
