package sim

import (
	"encoding/binary"
	"fmt"
)

// Independent Hotline transaction codec, written from the protocol document (ref/HLProtocol-1.9.extracted.txt,
// "Transactions"): flags(1) isReply(1) type(2) id(4) error(4) totalSize(4) dataSize(4) | paramCount(2)
// { fieldID(2) fieldSize(2) data }*.  It shares no code with /repo.

type F struct {
	ID   int    `json:"id"`
	Data []byte `json:"-"`
}

type Tx struct {
	Flags   int
	IsReply int
	Type    int
	ID      uint32
	Err     uint32
	Fields  []F
	// set by the splitter
	TotalSize, DataSize, ParamCount int
	WellFormed                      bool
	Raw                             []byte
}

func NewTx(typ int, id uint32, fields ...F) Tx {
	return Tx{Type: typ, ID: id, Fields: fields}
}

func Fld(id int, data []byte) F { return F{ID: id, Data: data} }

func (t Tx) Encode() []byte {
	body := make([]byte, 2)
	binary.BigEndian.PutUint16(body, uint16(len(t.Fields)))
	for _, f := range t.Fields {
		h := make([]byte, 4)
		binary.BigEndian.PutUint16(h[0:2], uint16(f.ID))
		binary.BigEndian.PutUint16(h[2:4], uint16(len(f.Data)))
		body = append(body, h...)
		body = append(body, f.Data...)
	}
	hdr := make([]byte, 20)
	hdr[0] = byte(t.Flags)
	hdr[1] = byte(t.IsReply)
	binary.BigEndian.PutUint16(hdr[2:4], uint16(t.Type))
	binary.BigEndian.PutUint32(hdr[4:8], t.ID)
	binary.BigEndian.PutUint32(hdr[8:12], t.Err)
	binary.BigEndian.PutUint32(hdr[12:16], uint32(len(body)))
	binary.BigEndian.PutUint32(hdr[16:20], uint32(len(body)))
	return append(hdr, body...)
}

func (t Tx) Get(id int) ([]byte, bool) {
	for _, f := range t.Fields {
		if f.ID == id {
			return f.Data, true
		}
	}
	return nil, false
}

func (t Tx) GetAll(id int) [][]byte {
	var out [][]byte
	for _, f := range t.Fields {
		if f.ID == id {
			out = append(out, f.Data)
		}
	}
	return out
}

// Splitter re-frames a byte stream into transactions.  A frame is WellFormed iff totalSize = dataSize, the
// parameter list of paramCount fields exactly fills the data part, and every field size fits.
type Splitter struct {
	buf []byte
	// Garbage is set when the stream cannot be re-framed any further (header claims an absurd size).
	Garbage bool
}

func (s *Splitter) Feed(b []byte) []Tx {
	s.buf = append(s.buf, b...)
	var out []Tx
	for {
		if len(s.buf) < 20 {
			return out
		}
		total := int(binary.BigEndian.Uint32(s.buf[12:16]))
		if total > 1<<24 {
			s.Garbage = true
			return out
		}
		if len(s.buf) < 20+total {
			return out
		}
		raw := s.buf[:20+total]
		s.buf = s.buf[20+total:]
		out = append(out, ParseFrame(raw))
	}
}

func (s *Splitter) Pending() int { return len(s.buf) }

func ParseFrame(raw []byte) Tx {
	t := Tx{Raw: append([]byte(nil), raw...)}
	t.Flags = int(raw[0])
	t.IsReply = int(raw[1])
	t.Type = int(binary.BigEndian.Uint16(raw[2:4]))
	t.ID = binary.BigEndian.Uint32(raw[4:8])
	t.Err = binary.BigEndian.Uint32(raw[8:12])
	t.TotalSize = int(binary.BigEndian.Uint32(raw[12:16]))
	t.DataSize = int(binary.BigEndian.Uint32(raw[16:20]))
	body := raw[20:]
	if len(body) < 2 {
		return t
	}
	t.ParamCount = int(binary.BigEndian.Uint16(body[0:2]))
	p := body[2:]
	ok := t.TotalSize == t.DataSize
	for i := 0; i < t.ParamCount; i++ {
		if len(p) < 4 {
			ok = false
			break
		}
		id := int(binary.BigEndian.Uint16(p[0:2]))
		sz := int(binary.BigEndian.Uint16(p[2:4]))
		if len(p) < 4+sz {
			ok = false
			break
		}
		t.Fields = append(t.Fields, F{ID: id, Data: append([]byte(nil), p[4:4+sz]...)})
		p = p[4+sz:]
	}
	if len(p) != 0 {
		ok = false
	}
	t.WellFormed = ok
	return t
}

func (t Tx) String() string {
	s := fmt.Sprintf("tx{type=%d reply=%d id=%d err=%d", t.Type, t.IsReply, t.ID, t.Err)
	for _, f := range t.Fields {
		if len(f.Data) <= 24 {
			s += fmt.Sprintf(" %d=%x", f.ID, f.Data)
		} else {
			s += fmt.Sprintf(" %d=[%d bytes]", f.ID, len(f.Data))
		}
	}
	return s + "}"
}

// Transaction type and field numbers (protocol document).
const (
	TGetMsgs = 101; TNewMsg = 102; TOldPostNews = 103; TServerMsg = 104; TChatSend = 105; TChatMsg = 106
	TLogin = 107; TSendInstantMsg = 108; TShowAgreement = 109; TDisconnectUser = 110; TDisconnectMsg = 111
	TInviteNewChat = 112; TInviteToChat = 113; TRejectChatInvite = 114; TJoinChat = 115; TLeaveChat = 116
	TNotifyChatChangeUser = 117; TNotifyChatDeleteUser = 118; TNotifyChatSubject = 119; TSetChatSubject = 120
	TAgreed = 121; TServerBanner = 122
	TGetFileNameList = 200; TDownloadFile = 202; TUploadFile = 203; TDeleteFile = 204; TNewFolder = 205
	TGetFileInfo = 206; TSetFileInfo = 207; TMoveFile = 208; TMakeFileAlias = 209; TDownloadFldr = 210
	TDownloadInfo = 211; TDownloadBanner = 212; TUploadFldr = 213
	TGetUserNameList = 300; TNotifyChangeUser = 301; TNotifyDeleteUser = 302; TGetClientInfoText = 303
	TSetClientUserInfo = 304; TListUsers = 348; TUpdateUser = 349; TNewUser = 350; TDeleteUser = 351
	TGetUser = 352; TSetUser = 353; TUserAccess = 354; TUserBroadcast = 355
	TGetNewsCatNameList = 370; TGetNewsArtNameList = 371; TDelNewsItem = 380; TNewNewsFldr = 381
	TNewNewsCat = 382; TGetNewsArtData = 400; TPostNewsArt = 410; TDelNewsArt = 411; TKeepAlive = 500
)

const (
	FError = 100; FData = 101; FUserName = 102; FUserID = 103; FUserIconID = 104; FUserLogin = 105
	FUserPassword = 106; FRefNum = 107; FTransferSize = 108; FChatOptions = 109; FUserAccess = 110
	FUserFlags = 112; FOptions = 113; FChatID = 114; FChatSubject = 115; FWaitingCount = 116
	FBannerType = 152; FNoServerAgreement = 152; FVersion = 160; FCommunityBannerID = 161; FServerName = 162
	FFileNameWithInfo = 200; FFileName = 201; FFilePath = 202; FFileResumeData = 203
	FFileTransferOptions = 204; FFileTypeString = 205; FFileCreatorString = 206; FFileSize = 207
	FFileCreateDate = 208; FFileModifyDate = 209; FFileComment = 210; FFileNewName = 211; FFileNewPath = 212
	FFileType = 213; FQuotingMsg = 214; FAutomaticResponse = 215; FFolderItemCount = 220
	FUsernameWithInfo = 300; FNewsArtListData = 321; FNewsCatName = 322; FNewsCatListData15 = 323
	FNewsPath = 325; FNewsArtID = 326; FNewsArtDataFlav = 327; FNewsArtTitle = 328; FNewsArtPoster = 329
	FNewsArtDate = 330; FNewsArtPrevArt = 331; FNewsArtNextArt = 332; FNewsArtData = 333
	FNewsArtParentArt = 335; FNewsArt1stChildArt = 336; FNewsArtRecurseDel = 337
)

// Obfuscate is the protocol's login/password scrambling (each byte complemented).
func Obfuscate(b []byte) []byte {
	o := make([]byte, len(b))
	for i, c := range b {
		o[i] = 255 - c
	}
	return o
}

// EncPath encodes a list of path components as a Hotline file path: count(2) { 0 0 len(1) name }*.
func EncPath(items ...string) []byte {
	if len(items) == 0 {
		return nil
	}
	b := []byte{byte(len(items) >> 8), byte(len(items))}
	for _, it := range items {
		b = append(b, 0, 0, byte(len(it)))
		b = append(b, it...)
	}
	return b
}

// EncNewsPath encodes a news path (same layout as file paths).
func EncNewsPath(items ...string) []byte { return EncPath(items...) }

func U16(v int) []byte { return []byte{byte(v >> 8), byte(v)} }
func U32(v int) []byte { return []byte{byte(v >> 24), byte(v >> 16), byte(v >> 8), byte(v)} }

func BE(b []byte) int {
	v := 0
	for _, c := range b {
		v = v<<8 | int(c)
	}
	return v
}

// AccessBits builds the 8-byte access bitmap with the given privilege numbers set: privilege i is bit i counted
// from the most significant bit of the first byte.
func AccessBits(privs ...int) [8]byte {
	var a [8]byte
	for _, i := range privs {
		a[i/8] |= 1 << uint(7-i%8)
	}
	return a
}

func AllAccess() [8]byte {
	var a [8]byte
	for i := range a {
		a[i] = 0xff
	}
	return a
}
