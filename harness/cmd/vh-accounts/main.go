// vh-accounts drives the real account handlers / account manager for C15 (see harness/fam/accounts).
package main

import (
	"fmt"
	"os"

	"verifharness/fam/accounts"
)

func main() {
	if err := accounts.Run(os.Args[1:]); err != nil {
		fmt.Fprintf(os.Stderr, "vh-accounts: %v\n", err)
		os.Exit(3)
	}
}
