// vh-persist is the observer of the C20 check: plan | seed | probe | record | materialise | kill.
package main

import (
	"fmt"
	"os"

	"verifharness/fam/persist"
)

func main() {
	if err := persist.Run(os.Args[1:]); err != nil {
		fmt.Fprintln(os.Stderr, "vh-persist:", err)
		os.Exit(3)
	}
}
