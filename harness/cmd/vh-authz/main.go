// vh-authz drives the real Mobius code for the privilege family (C05, C06, C16).  Usage: vh-authz -scripts f -out f.
package main

import (
	"fmt"
	"os"

	"verifharness/fam/authz"
)

func main() {
	if err := authz.Run(os.Args[1:]); err != nil {
		fmt.Fprintf(os.Stderr, "vh-authz: %v\n", err)
		os.Exit(3)
	}
}
