// vh-folder drives the real folder transfer handlers for the C10 check (see harness/fam/folder).
package main

import (
	"fmt"
	"os"

	"verifharness/fam/folder"
)

func main() {
	if err := folder.Run(os.Args[1:]); err != nil {
		fmt.Fprintln(os.Stderr, "vh-folder:", err)
		os.Exit(3)
	}
}
