// vh-news drives the real threaded-news code for check C18 (see harness/fam/news).
package main

import (
	"fmt"
	"os"

	"verifharness/fam/news"
)

func main() {
	if err := news.Run(os.Args[1:]); err != nil {
		fmt.Fprintf(os.Stderr, "vh-news: %v\n", err)
		os.Exit(3)
	}
}
