package main

import (
	"fmt"
	"os"

	"verifharness/fam/board"
)

func main() {
	if err := board.Run(os.Args[1:]); err != nil {
		fmt.Fprintln(os.Stderr, "vh-board:", err)
		os.Exit(3)
	}
}
