package main

import (
	"fmt"
	"os"

	"verifharness/fam/contain"
)

func main() {
	if err := contain.Run(os.Args[1:]); err != nil {
		fmt.Fprintln(os.Stderr, "vh-contain:", err)
		os.Exit(3)
	}
}
