package main

import (
	"fmt"
	"os"

	"verifharness/fam/outbox"
)

func main() {
	if err := outbox.Run(os.Args[1:]); err != nil {
		fmt.Fprintln(os.Stderr, "vh-outbox:", err)
		os.Exit(3)
	}
}
