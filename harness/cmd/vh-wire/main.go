// vh-wire: driver/observer of the C01 (wire format fidelity) family.  See harness/fam/wire.
package main

import (
	"fmt"
	"os"

	"verifharness/fam/wire"
)

func main() {
	if err := wire.Run(os.Args[1:]); err != nil {
		fmt.Fprintln(os.Stderr, "vh-wire:", err)
		os.Exit(3)
	}
}
