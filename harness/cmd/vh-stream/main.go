// vh-stream drives the real Mobius connection handlers over scripted TCP segmentations (property C02).
package main

import (
	"fmt"
	"os"

	"verifharness/fam/stream"
)

func main() {
	if err := stream.Run(os.Args[1:]); err != nil {
		fmt.Fprintf(os.Stderr, "vh-stream: %v\n", err)
		os.Exit(3)
	}
}
