// vharness drives the real Mobius code for the /verif checks.  Usage: vharness <driver> [flags].
package main

import (
	"fmt"
	"os"

	"verifharness/props"
)

func main() {
	if len(os.Args) < 2 {
		fmt.Fprintln(os.Stderr, "usage: vharness <driver> [flags]")
		os.Exit(2)
	}
	d, ok := props.Drivers[os.Args[1]]
	if !ok {
		fmt.Fprintf(os.Stderr, "unknown driver %q\n", os.Args[1])
		os.Exit(2)
	}
	if err := d(os.Args[2:]); err != nil {
		fmt.Fprintf(os.Stderr, "vharness %s: %v\n", os.Args[1], err)
		os.Exit(3)
	}
}
