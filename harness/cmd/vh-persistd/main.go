// vh-persistd performs a scripted sequence of persistent updates on a config directory through the real stores
// (run under strace by the C20 check).  It observes nothing and decides nothing.
package main

import (
	"fmt"
	"os"

	"verifharness/fam/persist"
)

func main() {
	if err := persist.RunDaemon(os.Args[1:]); err != nil {
		fmt.Fprintln(os.Stderr, "vh-persistd:", err)
		os.Exit(3)
	}
}
