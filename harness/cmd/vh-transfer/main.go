// vh-transfer drives real single-file downloads and uploads (with connection cuts and resumption) of the Mobius
// server for the C08 / C09 checks.  Observer only: it records structural facts, Trace_Transfer decides.
package main

import (
	"fmt"
	"os"

	"verifharness/fam/transfer"
)

func main() {
	if err := transfer.Run(os.Args[1:]); err != nil {
		fmt.Fprintf(os.Stderr, "vh-transfer: %v\n", err)
		os.Exit(3)
	}
}
