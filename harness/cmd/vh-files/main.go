// vh-files drives the real Mobius file and account handlers for the C07 / C11 checks (observer only).
package main

import (
	"fmt"
	"os"

	"verifharness/fam/files"
)

func main() {
	if err := files.Run(os.Args[1:]); err != nil {
		fmt.Fprintf(os.Stderr, "vh-files: %v\n", err)
		os.Exit(3)
	}
}
